"""package stub for pyvis (see pyvis_stub.py)"""
