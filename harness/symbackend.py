"""
Symbolic backend: holes are SMT variables, objects live in pysym's heap.
Runs under python3-vt (needs z3).
"""
import ast
import itertools
import json
import os
import re
import subprocess
import sys

import z3

from pysym.engine import Infeasible, BoundHit, Inconclusive
from pysym import interp as P
from pysym.interp import (Interp, Obj, PList, PDict, PSet, SymRef, SInt, SBool, SStr, UFunc, ClassObj,
                          Frame, PModule, PyExc, NONE_OID, oid_of, HeapVal, FuncObj, BoundMethod, GenObj,
                          NativeProxy)
from harness.api import BackendBase, HarnessError, STRUCT_CLASSES, COMMON_CLASSES_SRC, normalise_str

VERIF = os.path.dirname(os.path.dirname(os.path.abspath(__file__)))

PRELOAD = ["edgegraph.structure", "edgegraph.structure.universe", "edgegraph.structure.singleton",
           "edgegraph.builder.explicit", "edgegraph.builder.adjlist", "edgegraph.builder.adjmatrix",
           "edgegraph.builder.randgraph", "edgegraph.traversal.helpers", "edgegraph.traversal.breadthfirst",
           "edgegraph.traversal.depthfirst", "edgegraph.output.plaintext", "edgegraph.output.plantuml",
           "edgegraph.output.pyvis"]

EXTRA_SOURCES = {"refmodel": os.path.join(VERIF, "harness", "refmodel.py"),
                 "pyvis": os.path.join(VERIF, "harness", "pyvis_pkg_stub.py"),
                 "pyvis.network": os.path.join(VERIF, "harness", "pyvis_stub.py")}

_W = {"interp": None, "native": None, "common": None, "ast": {}}


def get_interp(ctx):
    I = _W["interp"]
    if I is None:
        I = Interp(ctx, extra_sources=EXTRA_SOURCES)
        for m in PRELOAD:
            I.import_module(m)
        mod = PModule("__harness__", {"__name__": "__harness__"})
        I.modules["__harness__"] = mod
        I.exec_block(_parse(COMMON_CLASSES_SRC).body, Frame(mod.globs, mod.globs))
        _W["common"] = {k: v for k, v in mod.globs.items() if isinstance(v, ClassObj)}
        I.freeze_imports()
        _W["interp"] = I
    I.reset_path(ctx)
    return I


def _parse(src):
    t = _W["ast"].get(src)
    if t is None:
        t = ast.parse(src)
        _W["ast"][src] = t
    return t


# --------------------------------------------------------------------------- native side client
class NativeClient:
    def __init__(self):
        root = os.environ.get("EDGEGRAPH_ROOT", "/repo")
        env = dict(os.environ)
        env["PYTHONPATH"] = root + os.pathsep + VERIF
        env["EDGEGRAPH_ROOT"] = root
        self.p = subprocess.Popen([os.environ.get("VERIF_NATIVE_PY", "/venv/bin/python"), "-u",
                                   os.path.join(VERIF, "harness", "native_server.py")],
                                  stdin=subprocess.PIPE, stdout=subprocess.PIPE, env=env, text=True)

    def run(self, check, params, holes):
        req = json.dumps({"check": check, "params": params, "holes": holes})
        import select
        try:
            self.p.stdin.write(req + "\n")
            self.p.stdin.flush()
            ready, _, _ = select.select([self.p.stdout], [], [], float(os.environ.get("VERIF_NATIVE_TIMEOUT", "120")))
            if not ready:
                # the real code did not come back (non-termination?): kill the server, report
                self.p.kill()
                _W["native"] = None
                return {"error": "native replay timed out (the real code did not return within the limit)", "timeout": True}
            line = self.p.stdout.readline()
        except (BrokenPipeError, OSError) as e:
            raise HarnessError(f"native server died: {e}")
        if not line:
            raise HarnessError("native server closed the pipe")
        return json.loads(line)


def native_client():
    # one server per process: a forked worker must not share its parent's pipe
    if _W["native"] is None or _W.get("native_pid") != os.getpid():
        _W["native"] = NativeClient()
        _W["native_pid"] = os.getpid()
    return _W["native"]


_ESC = re.compile(r"\\u\{([0-9a-fA-F]+)\}|\\x([0-9a-fA-F]{2})")


def z3str(v):
    s = v.as_string()
    return _ESC.sub(lambda m: chr(int(m.group(1) or m.group(2), 16)), s)


# --------------------------------------------------------------------------- backend
class SymBackend(BackendBase):
    sym = True

    def __init__(self, ctx, check_id, params, validate=True):
        self.ctx = ctx
        self.I = get_interp(ctx)
        self.check_id = check_id
        self.params = params
        self.validate = validate
        self.by_oid = {}       # oid -> label
        self.objects = {}      # label -> value
        self.holes = []        # (kind, name, ...)
        self.classes = dict(_W["common"])
        self.observables = {}
        self.obl_values = []
        self.failed_here = False
        self.hmod = self.I.modules["__harness__"]

    # ---- classes / objects
    def cls(self, name):
        if name in self.classes:
            return self.classes[name]
        modname, attr = STRUCT_CLASSES[name]
        c = self.I.import_module(modname).globs[attr]
        self.classes[name] = c
        return c

    def define(self, src):
        ns = dict(self.hmod.globs)
        fr = Frame(ns, ns)
        self.I.exec_block(_parse(src).body, fr)
        for k, v in ns.items():
            if isinstance(v, ClassObj):
                self.classes[k] = v
        return ns

    def fn(self, dotted):
        modname, attr = dotted.rsplit(".", 1)
        return self.I.import_module(modname).globs[attr]

    def label(self, obj, label):
        obj.label = label
        self.by_oid[obj.oid] = label
        self.objects[label] = obj
        return obj

    def new(self, label, clsname, *args, **kw):
        obj = self.I.call(self.cls(clsname), list(args), kw)
        return self.label(obj, label)

    def label_of(self, obj):
        if obj is None:
            return None
        return self.by_oid.get(obj.oid, "?")

    def is_known(self, v):
        return isinstance(v, HeapVal) and v.oid in self.by_oid

    def adopt(self, v, label):
        """give a label to an object created by the program (if it is a new
        object); returns [obj] or []"""
        if isinstance(v, (Obj,)) and v.oid not in self.by_oid:
            self.label(v, label)
            return [v]
        return []

    def discover(self, owners, field, prefix):
        """unlabelled objects referenced from owners' list field (sym: in any
        buffer position / candidate set)"""
        found = []
        for o in owners:
            lst = o.fields.get(field)
            if not isinstance(lst, PList):
                continue
            for e in lst.elems:
                for c in (e.cands if isinstance(e, SymRef) else (e,)):
                    if isinstance(c, Obj) and c.oid not in self.by_oid and not any(c is f for f in found):
                        found.append(c)
        for i, c in enumerate(found):
            self.label(c, f"{prefix}{i}")
        return found

    def new_raw(self, label, clsname):
        obj = Obj(self.I, self.cls(clsname))
        return self.label(obj, label)

    # ---- holes
    def _oids(self, cands, allow_none):
        c = list(cands) + ([None] if allow_none and None not in cands else [])
        return c

    def ref(self, name, cands, allow_none=False):
        cands = self._oids(cands, allow_none)
        if len(cands) == 1:
            self.holes.append(("const", name, cands[0]))
            return cands[0]
        t = z3.Int("h_" + name)
        self.ctx.assume(z3.Or([t == oid_of(c) for c in cands]))
        self.holes.append(("ref", name, t))
        return SymRef(t, cands)

    def int(self, name, lo=None, hi=None):
        t = z3.Int("h_" + name)
        cs = []
        if lo is not None:
            cs.append(t >= lo)
        if hi is not None:
            cs.append(t <= hi)
        if cs:
            self.ctx.assume(z3.And(*cs))
        self.holes.append(("int", name, t))
        return SInt(t)

    def bool(self, name):
        t = z3.Bool("h_" + name)
        self.holes.append(("bool", name, t))
        return SBool(t)

    def choice(self, name, n):
        """a concrete value in range(n): forks"""
        t = z3.Int("h_" + name)
        self.ctx.assume(z3.And(t >= 0, t < n))
        self.holes.append(("int", name, t))
        for i in range(n - 1):
            if self.ctx.decide(t == i):
                return i
        return n - 1

    def reflist(self, name, cands, maxlen, cap=None, allow_none=False):
        cands = self._oids(cands, allow_none)
        cap = cap if cap is not None else maxlen
        n = z3.Int("h_" + name + "_n")
        self.ctx.assume(z3.And(n >= 0, n <= maxlen))
        elems = []
        terms = []
        for j in range(cap):
            t = z3.Int(f"h_{name}_{j}")
            self.ctx.assume(z3.Or([t == oid_of(c) for c in cands]))
            terms.append(t)
            elems.append(SymRef(t, cands) if len(cands) > 1 else cands[0])
        self.holes.append(("reflist", name, n, terms))
        return PList(self.I, elems, sym_n=n)

    def intlist(self, name, maxlen, lo=None, hi=None, cap=None):
        cap = cap if cap is not None else maxlen
        n = z3.Int("h_" + name + "_n")
        self.ctx.assume(z3.And(n >= 0, n <= maxlen))
        terms = []
        for j in range(cap):
            t = z3.Int(f"h_{name}_{j}")
            if lo is not None:
                self.ctx.assume(t >= lo)
            if hi is not None:
                self.ctx.assume(t <= hi)
            terms.append(t)
        self.holes.append(("intlist", name, n, terms))
        return PList(self.I, [SInt(t) for t in terms], sym_n=n)

    def mklist(self, values):
        return PList(self.I, list(values))

    def symlist(self, values, n):
        """the first n (symbolic) of the given values"""
        if isinstance(n, int):
            return PList(self.I, list(values)[:n])
        return PList(self.I, list(values), sym_n=n.term)

    def mktuple(self, values):
        return PList(self.I, list(values), frozen=True)

    def mkdict(self, pairs):
        d = PDict(self.I)
        for k, v in pairs:
            self.I.dict_setitem(d, k, v)
        return d

    def uf(self, name, domains, ret="bool", fault=False, fault_cls="HarnessFault", unhashable=False, falsy=False):
        ft = None
        if fault:
            ft = z3.Int("h_" + name + "_fault")
            self.ctx.assume(ft >= -1)
        u = self.I.make_ufunc("uf_" + name, len(domains), ret, fault=ft,
                              fault_exc=self.classes[fault_cls], label=name)
        u.unhashable = unhashable       # a callable object that defines __eq__ without __hash__
        u.falsy = falsy                 # a callable object whose truth value is False (e.g. an empty callable container)
        self.by_oid[u.oid] = name
        self.objects[name] = u
        self.holes.append(("uf", name, u, [list(d) for d in domains], ft))
        return u

    # ---- C10: the abstract base pickler
    def with_fake_dill(self, src):
        """make ``import dill`` resolve to the given source (an abstract recursive pickler) and import the real
        edgegraph.output.nrpickler on top of it; returns the nrpickler module's namespace + the stub's"""
        dill = PModule("dill", {"__name__": "dill", "depth_probe": P.NativeFunc(lambda it, a, k: self.I.depth, "depth_probe")})
        self.I.modules["dill"] = dill
        self.I.exec_block(_parse(src).body, Frame(dill.globs, dill.globs))
        self.I.modules.pop("edgegraph.output.nrpickler", None)
        nr = self.I.import_module("edgegraph.output.nrpickler")
        env = dict(dill.globs)
        env["nrpickler"] = nr
        return env

    def native_only(self, fn):
        """obligations that exist on the native side only (concrete replays)"""

    # ---- random number generator (stubbed: every answer symbolic)
    def install_rng(self):
        """native side patches random.randint / random.sample with the model's answers"""

    def rng_rewind(self):
        """make the stub give the same answers again (same RNG stream)"""
        self.I.rng_replay = [e[:2] for e in self.I.rng_log]
        self._rng_first = list(self.I.rng_log)
        self.I.rng_log = []

    def oracle_ints(self, name, n):
        """pick(r): an arbitrary integer k with 0 <= k <= r on each call (at most n calls)"""
        B = self
        terms = [z3.Int(f"h_{name}_{j}") for j in range(n)]
        self.holes.append(("intseq", name, terms))
        state = {"j": 0}

        def pick(it, a, k):
            j = state["j"]
            state["j"] += 1
            if j >= n:
                raise HarnessError("oracle_ints exhausted")
            t = terms[j]
            B.ctx.assume(z3.And(t >= 0, t <= B.I.int_term(a[0])))
            return SInt(t)
        return P.NativeFunc(pick, "pick")

    def try_public_assoc(self, verts, links):
        """native side only: reach the installed pre-state through the public API"""

    def try_public_membership(self, objs, unis):
        """native side only"""

    def try_public_laws(self, unis, laws):
        """native side only"""

    def uf_twin(self, u):
        """the same function without the injected fault"""
        t = self.I.make_ufunc(u.name, u.arity, u.ret, label=u.label + ".ok")
        self.by_oid[t.oid] = u.label + ".ok"
        self.objects[u.label + ".ok"] = t
        return t

    # ---- private state
    def set_field(self, obj, field, value):
        obj.fields[field] = value

    def set_attr(self, obj, name, value):
        """plain setattr (works for __slots__ too)"""
        self.I.setattr(obj, name, value)

    def get_field(self, obj, field):
        return obj.fields[field]

    def get_public(self, obj, name):
        """the value of a public read accessor (a property of the real class, interpreted)"""
        return self.I.getattr(obj, name)

    def has_field(self, obj, field):
        return field in obj.fields

    def set_class_attr(self, clsname, attr, value):
        self.cls(clsname).ns[attr] = value

    # ---- formulas
    def and_(self, *xs):
        acc = True
        for x in xs:
            acc = self.I.and_(acc, x)
            if acc is False:
                return False
        return acc

    def or_(self, *xs):
        acc = False
        for x in xs:
            acc = self.I.or_(acc, x)
            if acc is True:
                return True
        return acc

    def not_(self, x):
        return self.I.not_(x)

    def implies(self, a, b):
        return self.I.or_(self.I.not_(a), b)

    def iff(self, a, b):
        if isinstance(a, bool) and isinstance(b, bool):
            return a == b
        return self.I.wrapb(self.I.bool_term(a) == self.I.bool_term(b))

    def contains(self, lst, x):
        """identity membership (as the native backend): some live element IS x"""
        acc = False
        for i, e in enumerate(lst.elems):
            c = self.I.identical(e, x)
            if lst.sym_n is not None:
                c = self.I.and_(self.I.wrapb(lst.sym_n > i), c)
            acc = self.I.or_(acc, c)
        return acc

    def count(self, lst, x):
        acc = 0
        for i, e in enumerate(lst.elems):
            c = self.I.identical(e, x)
            if lst.sym_n is not None:
                c = self.I.and_(self.I.wrapb(lst.sym_n > i), c)
            acc = self.I.binop(ast.Add(), acc, self.I.ite(c, 1, 0))
        return acc

    def is_(self, a, b):
        return self.I.identical(a, b)

    def eq(self, a, b):
        return self.I.equal(a, b)

    def le(self, a, b):
        return self.I.cmp(ast.LtE(), a, b)

    def lt(self, a, b):
        return self.I.cmp(ast.Lt(), a, b)

    def add(self, a, b):
        return self.I.binop(ast.Add(), a, b)

    def len_(self, lst):
        return self.I.list_len(lst)

    def str_startswith(self, s, prefix):
        if isinstance(s, str):
            return s.startswith(prefix)
        return self.I.wrapb(z3.PrefixOf(z3.StringVal(prefix), self.I.str_term(s)))

    def nodup(self, lst):
        es = lst.elems
        acc = True
        for i in range(len(es)):
            for j in range(i + 1, len(es)):
                live = True if lst.sym_n is None else self.I.wrapb(lst.sym_n > j)
                acc = self.I.and_(acc, self.I.not_(self.I.and_(live, self.I.identical(es[i], es[j]))))
        return acc

    def elem_all(self, lst, pred):
        acc = True
        for i, e in enumerate(lst.elems):
            c = pred(e)
            if lst.sym_n is not None:
                c = self.I.or_(self.I.wrapb(lst.sym_n <= i), c)
            acc = self.I.and_(acc, c)
        return acc

    def consecutive_all(self, lst, pred2):
        """pred2 holds for every pair of consecutive live elements"""
        acc = True
        for i in range(len(lst.elems) - 1):
            c = pred2(lst.elems[i], lst.elems[i + 1])
            if lst.sym_n is not None:
                c = self.I.or_(self.I.wrapb(lst.sym_n <= i + 1), c)
            acc = self.I.and_(acc, c)
        return acc

    def list_eq(self, a, b):
        a = a if isinstance(a, PList) else PList(self.I, list(a))
        b = b if isinstance(b, PList) else PList(self.I, list(b))
        if a.frozen != b.frozen:
            b = PList(self.I, b.elems, b.sym_n, a.frozen)
        return self.I.equal(a, b)

    def ite(self, c, a, b):
        return self.I.ite(c, a, b)

    def truth(self, c):
        """fork on a condition; returns python bool"""
        return self.I.truth(c)

    def concrete_len(self, lst):
        """fork on the length of a symbolic-length list; returns python int"""
        if lst.sym_n is None:
            return len(lst.elems)
        for i in range(len(lst.elems)):
            if self.ctx.decide(lst.sym_n == i):
                return i
        return len(lst.elems)

    def items(self, lst):
        """the live elements (forks on the length)"""
        n = self.concrete_len(lst)
        return list(lst.elems[:n])

    # ---- assumptions / obligations / observation
    def assume(self, cond, what=""):
        if isinstance(cond, bool):
            if not cond:
                raise Infeasible()
            return
        self.ctx.assume(self.I.bool_term(cond))

    def observe(self, name, value):
        self.observables[name] = value

    def reach(self, marker):
        self.ctx.reach(marker)

    def prove(self, name, cond):
        if isinstance(cond, bool):
            term = cond
        else:
            term = self.I.bool_term(cond)
        ok = self.ctx.prove(term, name, on_fail=lambda neg: self._on_fail(name, neg))
        if not ok:
            self.failed_here = True
        return ok

    # ---- programs
    def run(self, src, env):
        g = dict(self.hmod.globs)
        g.update(env)
        fr = Frame(g, g)
        self.I.exec_block(_parse(src).body, fr)
        return g

    # ---- model -> concrete
    def _label_of_oid(self, o):
        if o == NONE_OID:
            return None
        return self.by_oid.get(o, f"?oid{o}")

    def fill(self, model):
        out = {}
        ev = lambda t: model.eval(t, model_completion=True)
        for h in self.holes:
            kind, name = h[0], h[1]
            if kind == "const":
                out[name] = self._label_of_oid(oid_of(h[2]))
            elif kind == "ref":
                out[name] = self._label_of_oid(ev(h[2]).as_long())
            elif kind == "int":
                out[name] = ev(h[2]).as_long()
            elif kind == "bool":
                out[name] = z3.is_true(ev(h[2]))
            elif kind == "reflist":
                n = ev(h[2]).as_long()
                out[name] = [self._label_of_oid(ev(t).as_long()) for t in h[3][:n]]
            elif kind == "intlist":
                n = ev(h[2]).as_long()
                out[name] = [ev(t).as_long() for t in h[3][:n]]
            elif kind == "intseq":
                out[name] = [ev(t).as_long() for t in h[2]]
            elif kind == "uf":
                u, domains, ft = h[2], h[3], h[4]
                table = []
                # a domain entry may be a label of an object created later by the program
                doms = []
                for dmn in domains:
                    dd = []
                    for c in dmn:
                        if isinstance(c, str):
                            if c in self.objects:
                                dd.append(self.objects[c])
                        else:
                            dd.append(c)
                    doms.append(dd)
                for combo in itertools.product(*doms):
                    t = ev(u.f(*[z3.IntVal(oid_of(c)) for c in combo]))
                    if u.ret == "bool":
                        val = z3.is_true(t)
                    elif u.ret == "int":
                        val = t.as_long()
                    else:
                        val = z3str(t)
                    table.append([[self._label_of_oid(oid_of(c)) for c in combo], val])
                spec = {"table": table}
                if ft is not None:
                    f = ev(ft).as_long()
                    spec["fault"] = f if f >= 0 else None
                out[name] = spec
        log = getattr(self, "_rng_first", None) or self.I.rng_log
        if log:
            rng = []
            for e in log:
                if e[0] == "randint":
                    rng.append(["randint", ev(e[1]).as_long()])
                else:
                    kk = e[2]
                    kv = ev(kk.term).as_long() if isinstance(kk, SInt) else kk
                    rng.append(["sample", [ev(t).as_long() for t in e[1][:kv]]])
            out["$rng"] = rng
        return out

    def idmap(self):
        return {self.I.id_of(o): "<" + lab + ">" for lab, o in self.objects.items() if isinstance(o, HeapVal)}

    def concretize(self, v, model, idmap):
        ev = lambda t: model.eval(t, model_completion=True)
        if v is None or isinstance(v, (bool, int, float)):
            return v
        if isinstance(v, str):
            return normalise_str(v, idmap)
        if isinstance(v, SInt):
            return ev(v.term).as_long()
        if isinstance(v, SBool):
            return z3.is_true(ev(v.term))
        if isinstance(v, SStr):
            return normalise_str(z3str(ev(v.term)), idmap)
        if isinstance(v, SymRef):
            o = ev(v.term).as_long()
            if o == NONE_OID:
                return None
            for c in v.cands:
                if oid_of(c) == o:
                    return self.concretize(c, model, idmap)
            raise HarnessError(f"model value {o} is not a candidate of {v}")
        if isinstance(v, PList):
            n = len(v.elems) if v.sym_n is None else ev(v.sym_n).as_long()
            return [self.concretize(x, model, idmap) for x in v.elems[:n]]
        if isinstance(v, PSet):
            return {"$set": sorted((self.concretize(x, model, idmap) for x in v.elems), key=repr)}
        if isinstance(v, PDict):
            return {"$dict": [[self.concretize(k, model, idmap), self.concretize(x, model, idmap)] for k, x in v.entries]}
        if isinstance(v, ClassObj):
            return {"$cls": v.name}
        if isinstance(v, (Obj, UFunc)):
            lab = self.by_oid.get(v.oid)
            if lab is not None:
                return {"$": lab}
            if isinstance(v, Obj) and self.I.builtins["BaseException"] in v.cls.mro:
                return {"$exc": v.cls.name}
            return {"$new": v.cls.name if isinstance(v, Obj) else "function"}
        if isinstance(v, list):
            return [self.concretize(x, model, idmap) for x in v]
        if isinstance(v, dict):
            return {k: self.concretize(x, model, idmap) for k, x in v.items()}
        raise HarnessError(f"cannot concretize {v!r}")

    # ---- counterexample handling: replay natively before anything is reported
    def _block(self, model):
        lits = []
        ev = lambda t: model.eval(t, model_completion=True)
        for h in self.holes:
            if h[0] in ("ref", "int", "bool"):
                lits.append(h[2] != ev(h[2]))
            elif h[0] in ("reflist", "intlist"):
                lits.append(h[2] != ev(h[2]))
                for t in h[3]:
                    lits.append(t != ev(t))
        return z3.Or(lits) if lits else z3.BoolVal(False)

    def _on_fail(self, name, neg):
        extra = [neg] if neg is not None else []
        tried = 0
        last = None
        while tried < 8:
            model = self.ctx.model(extra)
            if model is None:
                break
            tried += 1
            holes = self.fill(model)
            res = native_client().run(self.check_id, self.params, holes)
            last = res
            if res.get("error"):
                # a harness error on the native side: keep the model for diagnosis
                return {"obligation": name, "scenario": {"check": self.check_id, "params": self.params, "holes": holes},
                        "reproduced": False, "native": res, "harness_error": True}
            bad = [n for n, ok in res.get("obligations", []) if not ok]
            if bad:
                return {"obligation": name, "scenario": {"check": self.check_id, "params": self.params, "holes": holes},
                        "reproduced": True, "native_failed": bad, "meta": res.get("meta", {})}
            extra.append(self._block(model))
        return {"obligation": name, "reproduced": False, "tried": tried, "native": last,
                "scenario": {"check": self.check_id, "params": self.params, "holes": self.fill(model) if model is not None else None}}

    def nontermination_witness(self, why):
        """the interpreted code exceeded the call-depth / loop bound: replay the
        path's witness natively; if an obligation fails there (e.g. because the
        real code raises RecursionError) it is a reproduced violation"""
        st = self.ctx.eng.stats
        model = self.ctx.model()
        if model is None:
            return
        holes = self.fill(model)
        res = native_client().run(self.check_id, self.params, holes)
        if res.get("error"):
            st.errors.append(f"bound hit ({why}); native replay failed: {res['error'][:1500]}")
            return
        bad = [n for n, ok in res.get("obligations", []) if not ok]
        if bad:
            st.failed.append({"obligation": bad[0], "reproduced": True, "native_failed": bad, "meta": res.get("meta", {}),
                              "note": f"pysym hit its {why} bound on this path; the real code fails the obligation "
                                      f"(non-termination / RecursionError)",
                              "scenario": {"check": self.check_id, "params": self.params, "holes": holes}})

    # ---- end of path: witness + translator validation
    def finish(self):
        st = self.ctx.eng.stats
        if self.failed_here:
            return
        model = self.ctx.model()
        if model is None:
            raise Infeasible()
        holes = self.fill(model)
        if len(st.samples) < 3:
            st.samples.append({"params": self.params, "holes": holes})
        if not self.validate:
            return
        idmap = self.idmap()
        expected = {k: self.concretize(v, model, idmap) for k, v in self.observables.items()}
        res = native_client().run(self.check_id, self.params, holes)
        if res.get("error"):
            st.errors.append(f"native replay of a path witness failed: {res['error']}\nholes={json.dumps(holes)}")
            return
        bad = [n for n, ok in res["obligations"] if not ok]
        if bad and all(n.startswith("[native replay]") for n in bad):
            # obligations that only exist natively (concrete replays of the path's witness): a real violation
            st.failed.append({"obligation": bad[0], "reproduced": True, "native_failed": bad, "meta": res.get("meta", {}),
                              "scenario": {"check": self.check_id, "params": self.params, "holes": holes}})
            return
        if bad:
            st.errors.append(f"witness mismatch: obligations {bad} proved symbolically but false natively\n"
                             f"params={json.dumps(self.params)} holes={json.dumps(holes)}")
            return
        got = res["observables"]
        if got != json.loads(json.dumps(expected)):
            diff = {k: (expected.get(k), got.get(k)) for k in set(expected) | set(got)
                    if json.loads(json.dumps(expected.get(k))) != got.get(k)}
            st.errors.append(f"witness mismatch (pysym vs CPython) on observables {json.dumps(diff, default=str)}\n"
                             f"params={json.dumps(self.params)} holes={json.dumps(holes)}")
            return
        st.validated += 1
