"""
Model of pyvis.network.Network (pyvis 0.3.2), interpreted by pysym in place of
the real class.  Only what edgegraph's exporter uses is modelled: add_node,
add_edge (incl. its node-existence assertions and its de-duplication of edges
while ``directed`` is false), get_nodes / get_node / get_edges, ``directed``,
show_buttons.  Written from the library's source; validated on every explored
path by comparing with the REAL class in the native replay.
"""


class Network:
    def __init__(self, height="600px", width="100%", directed=False, notebook=False, neighborhood_highlight=False,
                 select_menu=False, filter_menu=False, bgcolor="#ffffff", font_color=False, layout=None, heading="",
                 cdn_resources="local"):
        self.nodes = []
        self.edges = []
        self.directed = directed
        self.font_color = font_color
        self.node_ids = []
        self.node_map = {}
        self.conf = False
        self.widget = False
        assert cdn_resources in ["local", "in_line", "remote"], "cdn_resources not in [local, in_line, remote]."
        self.cdn_resources = cdn_resources

    def add_node(self, n_id, label=None, shape="dot", color='#97c2fc', **options):
        assert isinstance(n_id, str) or isinstance(n_id, int)
        if label:
            node_label = label
        else:
            node_label = n_id
        if n_id not in self.node_ids:
            opts = dict(options)
            if "group" not in options:
                opts["color"] = color
            opts["id"] = n_id
            opts["label"] = node_label
            opts["shape"] = shape
            if self.font_color:
                opts["font"] = dict(color=self.font_color)
            self.nodes.append(opts)
            self.node_ids.append(n_id)
            self.node_map[n_id] = opts

    def add_edge(self, source, to, **options):
        edge_exists = False
        assert source in self.get_nodes(), "non existent node"
        assert to in self.get_nodes(), "non existent node"
        if not self.directed:
            for e in self.edges:
                frm = e['from']
                dest = e['to']
                if ((source == dest and to == frm) or (source == frm and to == dest)):
                    edge_exists = True
        if not edge_exists:
            opts = dict(options)
            opts['from'] = source
            opts['to'] = to
            if self.directed:
                if 'arrows' not in opts:
                    opts["arrows"] = "to"
            self.edges.append(opts)

    def get_nodes(self):
        return self.node_ids

    def get_node(self, n_id):
        return self.node_map[n_id]

    def get_edges(self):
        return self.edges

    def show_buttons(self, filter_=None):
        self.conf = True
        self.widget = True

    def num_nodes(self):
        return len(self.node_ids)

    def num_edges(self):
        return len(self.edges)
