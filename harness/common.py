"""
Scenario building blocks shared by the checks.  Everything here is *dual*: it is
executed by the symbolic backend and by the native backend (no z3 imports).
"""

VNAMES = "abcdefgh"

LINK_CLASS_MENU = {
    "DE": "DirectedEdge", "UE": "UnDirectedEdge", "SD": "SubDE", "SU": "SubUE",
    "TE": "OtherTE", "GL": "NLink", "BI": "BiEdge",
}
TWO_ENDED = {"DE", "UE", "SD", "SU", "TE", "BI"}


def make_vertices(B, n, classes=None, uid=None):
    """pool vertices; with ``uid`` all of them carry that same caller-supplied uid (legal: uid= is unchecked,
    and copies keep the uid of their original)"""
    out = []
    for i in range(n):
        cn = classes[i] if classes else "Vertex"
        out.append(B.new(VNAMES[i], cn) if uid is None else B.new(VNAMES[i], cn, uid=uid))
    return out


def make_links(B, codes):
    """pool links, created end-less through the public constructors"""
    out = []
    for i, c in enumerate(codes):
        out.append(B.new(f"e{i}", LINK_CLASS_MENU[c]))
    return out


def symbolic_assoc_state(B, verts, links, K, cap, two_ended_wellformed=False, codes=None):
    """overwrite every association list of the pool with a symbolic one"""
    for v in verts:
        B.set_field(v, "_links", B.reflist(f"{_lab(B, v)}._links", links, K, cap))
    for i, l in enumerate(links):
        if two_ended_wellformed and (codes is None or codes[i] in TWO_ENDED):
            ends = [B.ref(f"{_lab(B, l)}.v1", verts, allow_none=True), B.ref(f"{_lab(B, l)}.v2", verts, allow_none=True)]
            B.set_field(l, "_vertices", B.mklist(ends))
        else:
            B.set_field(l, "_vertices", B.reflist(f"{_lab(B, l)}._vertices", verts, K, cap, allow_none=True))


def _lab(B, o):
    return B.label_of(o)


def inv01(B, verts, links):
    """l in v.links  <=>  v in l.vertices ;  no vertex lists a link twice"""
    acc = []
    for v in verts:
        vl = B.get_field(v, "_links")
        for l in links:
            if not B.has_field(l, "_vertices"):
                # a link whose construction failed before it had an end list
                acc.append(B.not_(B.contains(vl, l)))
                continue
            acc.append(B.iff(B.contains(vl, l), B.contains(B.get_field(l, "_vertices"), v)))
        acc.append(B.nodup(vl))
    return B.and_(*acc)


def links_typed(B, verts, links):
    """every element of a vertex's link list is one of ``links`` (used after a
    step: nothing unknown may have crept in)"""
    acc = []
    for v in verts:
        vl = B.get_field(v, "_links")
        acc.append(B.elem_all(vl, lambda e: B.or_(*[B.is_(e, l) for l in links])))
    return B.and_(*acc)


def inv02(B, members, unis, public=False):
    """v in u.vertices <=> u in v.universes ; no duplicates in either list.
    ``public``: read both lists through the public accessors (independent of the private representation)"""
    if public:
        mem = {id(u): B.get_public(u, "vertices") for u in unis}
        uni = {id(v): B.get_public(v, "universes") for v in members}
    else:
        mem = {id(u): B.get_field(u, "_vertices") for u in unis}
        uni = {id(v): B.get_field(v, "_universes") for v in members}
    acc = []
    for u in unis:
        ul = mem[id(u)]
        acc.append(B.nodup(ul))
        for v in members:
            acc.append(B.iff(B.contains(ul, v), B.contains(uni[id(v)], u)))
    for v in members:
        acc.append(B.nodup(uni[id(v)]))
    return B.and_(*acc)


def snapshot_assoc(B, verts, links, unis=()):
    """observable association lists (for witness validation)"""
    obs = {}
    for v in verts:
        obs[_lab(B, v) + "._links"] = B.get_field(v, "_links")
    for l in links:
        if B.has_field(l, "_vertices"):
            obs[_lab(B, l) + "._vertices"] = B.get_field(l, "_vertices")
    for u in unis:
        obs[_lab(B, u) + "._members"] = B.get_field(u, "_vertices")
    return obs
