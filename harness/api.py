"""
Dual-execution harness API.

A *scenario* is ordinary Python code written once against a backend object
``B`` and executed twice:

* by the symbolic backend (harness/symbackend.py, under python3-vt): holes are
  SMT variables, objects live in pysym's heap, ``B.run(src, env)`` interprets
  ``src`` with pysym together with the repository's real source;
* by the native backend (below, under /venv/bin/python): holes are filled from
  a z3 model (a JSON "filled scenario"), objects are real edgegraph objects,
  ``B.run`` is ``exec``.

This file must stay importable without z3 (it is imported by the native side).
"""
import re

STRUCT_CLASSES = {
    "Vertex": ("edgegraph.structure.vertex", "Vertex"),
    "Link": ("edgegraph.structure.link", "Link"),
    "TwoEndedLink": ("edgegraph.structure.twoendedlink", "TwoEndedLink"),
    "DirectedEdge": ("edgegraph.structure.directededge", "DirectedEdge"),
    "UnDirectedEdge": ("edgegraph.structure.undirectededge", "UnDirectedEdge"),
    "Universe": ("edgegraph.structure.universe", "Universe"),
    "UniverseLaws": ("edgegraph.structure.universe", "UniverseLaws"),
    "BaseObject": ("edgegraph.structure.base", "BaseObject"),
}

# harness classes used by several checks (defined by source, so that both
# backends create them the same way)
COMMON_CLASSES_SRC = '''
from edgegraph.structure import Vertex, Link, TwoEndedLink, DirectedEdge, UnDirectedEdge, Universe

class SubDE(DirectedEdge):
    pass

class SubUE(UnDirectedEdge):
    pass

class RoadEdge(DirectedEdge):
    """a DirectedEdge subclass whose constructor names its two ends differently (positional use only)"""
    def __init__(self, origin=None, destination=None, *, uid=None, attributes=None):
        super().__init__(origin, destination, uid=uid, attributes=attributes)

class BiEdge(UnDirectedEdge, DirectedEdge):
    """an edge type that derives from both stock edge types (legal: "subclasses of either")"""

class OtherTE(TwoEndedLink):
    """a two-ended link type that is neither directed nor undirected ("unknown type")"""

class NLink(Link):
    """an n-ended link"""

class SubVertex(Vertex):
    pass

class FalsyVertex(Vertex):
    """a legal Vertex subclass whose instances are falsy (an empty container vertex)"""
    def __bool__(self):
        return False

    def __len__(self):
        return 0

class NamedVertex(Vertex):
    """a Vertex subclass whose str() differs from its repr()"""
    def __str__(self):
        return "named-vertex"

class EqVertex(Vertex):
    """a Vertex subclass with value equality: distinct vertices may compare equal"""
    def __eq__(self, other):
        return isinstance(other, EqVertex) and getattr(self, "key", 0) == getattr(other, "key", 0)

    def __hash__(self):
        return 11

class UnhashVertex(Vertex):
    """a Vertex subclass that defines __eq__ only: Python makes its instances unhashable"""
    def __eq__(self, other):
        return self is other

class SlotVertex(Vertex):
    """a Vertex subclass that also declares __slots__ (its slot values are part of its state)"""
    __slots__ = ("payload", "peer")

class HarnessFault(Exception):
    """raised by a user call-back at its injected fault point"""

class HarnessInterrupt(BaseException):
    """a fault that is not an Exception subclass (like KeyboardInterrupt or a cancellation)"""
'''


class HarnessError(BaseException):
    """The harness itself is wrong (model does not satisfy an assumption,
    native run diverged from the symbolic prediction, ...).  Never a pass and
    never a violation: exit code 2.  (A BaseException, so that a scenario
    program's ``except Exception`` cannot swallow it.)"""


HEX_RE = re.compile(r"0x[0-9a-fA-F]+")


def normalise_str(s, idmap):
    """replace hex ids of known objects by <label>; unknown ones by 0x?"""
    return HEX_RE.sub(lambda m: idmap.get(int(m.group(0), 16), "0x?"), s)


class BackendBase:
    sym = False

    # ---- formula helpers with default (concrete) implementations -------------
    def and_(self, *xs):
        return all(xs)

    def or_(self, *xs):
        return any(xs)

    def not_(self, x):
        return not x

    def implies(self, a, b):
        return (not a) or b

    def iff(self, a, b):
        return bool(a) == bool(b)
