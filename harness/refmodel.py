"""
Plain reference model, written from the property statements.

Restricted Python: it is *interpreted by pysym* next to the real code (so it runs
over the same symbolic values) and executed natively in replays.  It reads the
graph through the private association lists only (``_links``, ``_vertices``,
``_universes``) and never calls into the code under analysis.
"""
from edgegraph.structure import DirectedEdge, UnDirectedEdge

FORWARD = 0
ANY = 1
BACKWARD = 2


def ref_neighbors(v, d, u, ff):
    """decision table of the statement of C04.
    returns (list of neighbours, None) or (None, exception class name)"""
    out = []
    for l in v._links:
        ends = l._vertices
        e1 = ends[0]
        e2 = ends[1]
        is1 = e1 is v
        if is1:
            other = e2
        else:
            other = e1
        if d == 1:
            q = True
        elif isinstance(l, UnDirectedEdge):
            q = True
        elif isinstance(l, DirectedEdge):
            if d == 0:
                q = is1
            else:
                q = e2 is v
        else:
            if u == 0:
                q = False
            elif u == 1:
                q = True
            else:
                return None, "NotImplementedError"
        if q and (ff is not None):
            q = ff(l, other)
        if q:
            out.append(other)
    return out, None


def ref_find_links(a, b, ds, u, ff):
    """statement of C09.  returns (list of links, None) or (None, exception name)"""
    out = []
    for l in a._links:
        ends = l._vertices
        e1 = ends[0]
        e2 = ends[1]
        joins = ((e1 is a) and (e2 is b)) or ((e1 is b) and (e2 is a))
        if not joins:
            continue
        if not ds:
            q = True
        elif isinstance(l, UnDirectedEdge):
            q = True
        elif isinstance(l, DirectedEdge):
            q = (e1 is a) and (e2 is b)
        else:
            if u == 0:
                q = False
            elif u == 1:
                q = True
            else:
                return None, "NotImplementedError"
        if q and (ff is not None):
            q = ff(l)
        if q:
            out.append(l)
    return out, None


def in_universe(uni, x):
    if uni is None:
        return True
    return x in uni._vertices


def seen_in(lst, x):
    # vertices do not define __eq__, so ``in`` is identity membership
    return x in lst


def ref_reach(uni, start, d, u, ff):
    """set of vertices reachable from start through members of uni, as a list
    in discovery order of a worklist search (order is not part of its contract).
    returns (list, None) or (None, exception name)"""
    seen = [start]
    work = [start]
    while len(work) > 0:
        x = work.pop()
        nbs, exc = ref_neighbors(x, d, u, ff)
        if exc is not None:
            return None, exc
        for w in nbs:
            if not in_universe(uni, w):
                continue
            if not seen_in(seen, w):
                seen.append(w)
                work.append(w)
    return seen, None


def ref_bft(uni, start, d, u, ff):
    """FIFO, mark on enqueue"""
    order = [start]
    i = 0
    while i < len(order):
        x = order[i]
        i = i + 1
        nbs, exc = ref_neighbors(x, d, u, ff)
        if exc is not None:
            return None, exc
        for w in nbs:
            if not in_universe(uni, w):
                continue
            if not seen_in(order, w):
                order.append(w)
    return order, None


def _ref_dfs_visit(uni, x, d, u, ff, order):
    order.append(x)
    nbs, exc = ref_neighbors(x, d, u, ff)
    if exc is not None:
        return exc
    for w in nbs:
        if not in_universe(uni, w):
            continue
        if not seen_in(order, w):
            exc = _ref_dfs_visit(uni, w, d, u, ff, order)
            if exc is not None:
                return exc
    return None


def ref_dft_recursive(uni, start, d, u, ff):
    """recursive pre-order"""
    order = []
    exc = _ref_dfs_visit(uni, start, d, u, ff, order)
    if exc is not None:
        return None, exc
    return order, None


def ref_dft_iterative(uni, start, d, u, ff):
    """explicit stack, mark on pop, neighbours pushed in order (so the most
    recently pushed neighbour is expanded first)"""
    stack = [start]
    order = []
    while len(stack) > 0:
        x = stack.pop()
        if seen_in(order, x):
            continue
        if not in_universe(uni, x):
            continue
        order.append(x)
        nbs, exc = ref_neighbors(x, d, u, ff)
        if exc is not None:
            return None, exc
        for w in nbs:
            stack.append(w)
    return order, None


def same_set(xs, ys):
    for x in xs:
        if not seen_in(ys, x):
            return False
    for y in ys:
        if not seen_in(xs, y):
            return False
    return True


def no_repeats(xs):
    i = 0
    while i < len(xs):
        j = i + 1
        while j < len(xs):
            if xs[i] is xs[j]:
                return False
            j = j + 1
        i = i + 1
    return True


def filter_list(xs, f):
    out = []
    for x in xs:
        if f(x):
            out.append(x)
    return out


def count_is(xs, x):
    n = 0
    for y in xs:
        if y is x:
            n = n + 1
    return n


# ---------------------------------------------------------------------------
# C02: universe membership.  State is given as parallel lists over the pool:
# objs[i], univ[i] = objs[i]'s ordered universes, memb[i] = ordered members of
# objs[i] if it is a universe else None.
def index_of(objs, o):
    i = 0
    while i < len(objs):
        if objs[i] is o:
            return i
        i = i + 1
    return -1


def ref_join(objs, univ, memb, u, x):
    """x becomes a member of u (no-op when it already is)"""
    iu = index_of(objs, u)
    ix = index_of(objs, x)
    if not (x in memb[iu]):
        memb[iu].append(x)
        if not (u in univ[ix]):
            univ[ix].append(u)


def ref_leave(objs, univ, memb, u, x):
    """x leaves u; returns False (and changes nothing) when it is not a member"""
    iu = index_of(objs, u)
    ix = index_of(objs, x)
    if not (x in memb[iu]):
        return False
    memb[iu].remove(x)
    if u in univ[ix]:
        univ[ix].remove(u)
    return True


def dedup(xs):
    out = []
    for x in xs:
        if not (x in out):
            out.append(x)
    return out


# ---------------------------------------------------------------------------
# C16: plain-text rendering
def insertion_sorted(xs, key):
    """stable sort by key (the harness assumes keys are pairwise distinct, so
    stability is immaterial)"""
    out = []
    for x in xs:
        k = key(x)
        pos = len(out)
        while pos > 0 and key(out[pos - 1]) > k:
            pos = pos - 1
        out.insert(pos, x)
    return out


def ref_basic_render(uni, rfunc, sort, bare_arrow=False):
    """bare_arrow: render a vertex without neighbours as 'label ->' (no trailing blank)"""
    if len(uni._vertices) == 0:
        return None
    verts = list(uni._vertices)
    if sort is not None:
        verts = insertion_sorted(verts, sort)
    lines = []
    for v in verts:
        if rfunc is not None:
            line = rfunc(v)
        else:
            line = repr(v)
        nbs, exc = ref_neighbors(v, 0, 2, None)
        if bare_arrow and len(nbs) == 0:
            line = line + " ->"
        else:
            line = line + " -> "
        if sort is not None:
            nbs = insertion_sorted(nbs, sort)
        first = True
        for w in nbs:
            if not first:
                line = line + ", "
            first = False
            if rfunc is not None:
                line = line + rfunc(w)
            else:
                line = line + repr(w)
        lines.append(line)
    return "\n".join(lines)


# ---------------------------------------------------------------------------
# C11: adjacency builders
def ref_adj_pairs_dict(adj):
    """(members in first-mention order, [(v1, v2)] in creation order) for load_adj_dict"""
    members = []
    pairs = []
    for k in adj:
        if not (k in members):
            members.append(k)
        for v in adj[k]:
            pairs.append((k, v))
            if not (v in members):
                members.append(v)
    return members, pairs


def ref_adj_pairs_matrix(matrix, vertices):
    members = dedup(vertices)
    pairs = []
    i = 0
    while i < len(matrix):
        row = matrix[i]
        j = 0
        while j < len(row):
            if row[j]:
                pairs.append((vertices[i], vertices[j]))
            j = j + 1
        i = i + 1
    return members, pairs


def incident_pairs(pairs, x):
    out = []
    for p in pairs:
        if (p[0] is x) or (p[1] is x):
            out.append(p)
    return out


def built_ok(uni, pool, pre_links, pre_unis, members, pairs, linktype):
    """the graph after a builder call equals the described one"""
    ok = uni._vertices == members
    newlinks = []
    for x in pool:
        n0 = len(pre_links[pool.index(x)])
        ok = ok and (x._links[:n0] == pre_links[pool.index(x)])
        tail = x._links[n0:]
        want = incident_pairs(pairs, x)
        ok = ok and (len(tail) == len(want))
        if len(tail) == len(want):
            t = 0
            while t < len(tail):
                l = tail[t]
                ok = ok and (type(l) is linktype) and (len(l._vertices) == 2)
                ok = ok and (l._vertices[0] is want[t][0]) and (l._vertices[1] is want[t][1])
                if not (l in newlinks):
                    newlinks.append(l)
                t = t + 1
        if x in members:
            ok = ok and (x._universes == pre_unis[pool.index(x)] + [uni])
        else:
            ok = ok and (x._universes == pre_unis[pool.index(x)])
    ok = ok and (len(newlinks) == len(pairs))
    return ok


# ---------------------------------------------------------------------------
# C03: relational step specifications (frame property).  ``pool`` is the list of
# vertices, ``plinks`` the list of pool links; pre_l[i] / pre_e[j] are copies of
# their ordered lists taken before the call.
def without(xs, x):
    out = []
    for y in xs:
        if not (y is x):
            out.append(y)
    return out


def joins(ends, a, b):
    """the link's two ends (v1, v2) are a and b; further vertices it may name do not matter"""
    if len(ends) < 2:
        return False
    return ((ends[0] is a) and (ends[1] is b)) or ((ends[0] is b) and (ends[1] is a))


def frame_links_ok(plinks, pre_e, except_links):
    """every pool link not in except_links has the same ordered ends as before"""
    ok = True
    j = 0
    while j < len(plinks):
        if not (plinks[j] in except_links):
            ok = ok and (plinks[j]._vertices == pre_e[j])
        j = j + 1
    return ok


def spec_new_edge(pool, plinks, pre_l, pre_e, new, x, y, cls):
    """a new link joining x and y was created: appended once per distinct non-None end, nothing else changed"""
    ok = (type(new) is cls) and (new._vertices == [x, y]) and not (new in plinks)
    i = 0
    while i < len(pool):
        v = pool[i]
        if (v is x) or (v is y):
            ok = ok and (v._links == pre_l[i] + [new])
        else:
            ok = ok and (v._links == pre_l[i])
        i = i + 1
    return ok and frame_links_ok(plinks, pre_e, [])


def spec_set_end(pool, plinks, pre_l, pre_e, l, which, x):
    """l.v1 = x (which == 0) / l.v2 = x (which == 1) on a link that had two ends"""
    j = index_of(plinks, l)
    old = pre_e[j][which]
    keep = pre_e[j][1 - which]
    want_ends = list(pre_e[j])
    want_ends[which] = x
    ok = (l._vertices == want_ends)
    i = 0
    while i < len(pool):
        v = pool[i]
        if v is x:
            if v is old:
                # the assigned vertex is the previous vertex of this end: it is still an end, so it must not
                # be detached ("detaches the previous vertex only if it is no longer an end"): list untouched
                ok = ok and (v._links == pre_l[i])
            elif l in pre_l[i]:
                # already listed because it is the OTHER end: still listed exactly once; where is not fixed
                ok = ok and (without(v._links, l) == without(pre_l[i], l)) and (count_is(v._links, l) == 1)
            else:
                ok = ok and (v._links == pre_l[i] + [l])
        elif (v is old) and (count_is(want_ends, v) == 0):
            # the previous vertex is detached, because it is no longer an end (not the other end, and not a
            # further vertex the link names)
            ok = ok and (v._links == without(pre_l[i], l))
        else:
            ok = ok and (v._links == pre_l[i])
        i = i + 1
    return ok and frame_links_ok(plinks, pre_e, [l])


def spec_unchanged(pool, plinks, pre_l, pre_e):
    ok = frame_links_ok(plinks, pre_e, [])
    i = 0
    while i < len(pool):
        ok = ok and (pool[i]._links == pre_l[i])
        i = i + 1
    return ok


def spec_unlink(pool, plinks, pre_l, pre_e, a, b, destroy, result):
    joining = []
    j = 0
    while j < len(plinks):
        if joins(pre_e[j], a, b) and (plinks[j] in pre_l[index_of(pool, a)]):
            joining.append(plinks[j])
        j = j + 1
    ok = True
    for l in joining:
        # both ends are detached; any further vertex the link names (and that vertex's list) is left alone
        j = index_of(plinks, l)
        ok = ok and (l._vertices == without(without(pre_e[j], a), b))
    i = 0
    while i < len(pool):
        v = pool[i]
        if (v is a) or (v is b):
            want = pre_l[i]
            for l in joining:
                want = without(want, l)
            ok = ok and (v._links == want)
        else:
            ok = ok and (v._links == pre_l[i])
        i = i + 1
    ok = ok and frame_links_ok(plinks, pre_e, joining)
    if destroy:
        ok = ok and (result is None)
    else:
        ok = ok and (result is not None) and (len(result) == len(joining))
        if result is not None:
            for l in joining:
                ok = ok and (l in result)
    return ok


def _others_unchanged(pool, pre_l, skip):
    ok = True
    i = 0
    while i < len(pool):
        if not (pool[i] is skip):
            ok = ok and (pool[i]._links == pre_l[i])
        i = i + 1
    return ok


def spec_unlink_from(pool, plinks, pre_l, pre_e, l, x):
    """l.unlink_from(x): no action when x is not one of l's ends; a vertex stops being an end of l altogether
    and stops listing it; for None exactly one empty end slot (the first) is given up"""
    j = index_of(plinks, l)
    if count_is(pre_e[j], x) == 0:
        return spec_unchanged(pool, plinks, pre_l, pre_e)
    if x is None:
        want = []
        dropped = False
        for y in pre_e[j]:
            if (y is None) and not dropped:
                dropped = True
            else:
                want.append(y)
        return (l._vertices == want) and _others_unchanged(pool, pre_l, None) and frame_links_ok(plinks, pre_e, [l])
    ok = (l._vertices == without(pre_e[j], x)) and (x._links == without(pre_l[index_of(pool, x)], l))
    return ok and _others_unchanged(pool, pre_l, x) and frame_links_ok(plinks, pre_e, [l])


def spec_add_vertex(pool, plinks, pre_l, pre_e, l, x):
    """l.add_vertex(x): x is appended to l's ends; a vertex that did not list l yet lists it last"""
    j = index_of(plinks, l)
    ok = (l._vertices == pre_e[j] + [x]) and frame_links_ok(plinks, pre_e, [l])
    if x is None:
        return ok and _others_unchanged(pool, pre_l, None)
    i = index_of(pool, x)
    if count_is(pre_l[i], l) > 0:
        ok = ok and (x._links == pre_l[i])
    else:
        ok = ok and (x._links == pre_l[i] + [l])
    return ok and _others_unchanged(pool, pre_l, x)


def spec_add_to_link(pool, plinks, pre_l, pre_e, v, l):
    """v.add_to_link(l): nothing when v lists l already; otherwise l is appended to v's links and v to l's ends"""
    i = index_of(pool, v)
    j = index_of(plinks, l)
    if count_is(pre_l[i], l) > 0:
        return spec_unchanged(pool, plinks, pre_l, pre_e)
    ok = (v._links == pre_l[i] + [l]) and (l._vertices == pre_e[j] + [v])
    return ok and _others_unchanged(pool, pre_l, v) and frame_links_ok(plinks, pre_e, [l])


def spec_remove_from_link(pool, plinks, pre_l, pre_e, v, l):
    """v.remove_from_link(l): v no longer lists l and is no longer one of its ends; nothing else changes"""
    i = index_of(pool, v)
    j = index_of(plinks, l)
    ok = (v._links == without(pre_l[i], l)) and (l._vertices == without(pre_e[j], v))
    return ok and _others_unchanged(pool, pre_l, v) and frame_links_ok(plinks, pre_e, [l])


def first_joining(pool, plinks, pre_l, pre_e, v, w):
    """the first link, in v's own link order, that joins v and w (what a dontdup call hands back)"""
    for l in pre_l[index_of(pool, v)]:
        j = index_of(plinks, l)
        if (j >= 0) and joins(pre_e[j], v, w):
            return l
    return None


# ---------------------------------------------------------------------------
# C07: properties of the orders stated directly (independent of the three reference traversals above)
def hop_distances(uni, start, d, u, ff):
    """[(vertex, hop distance)] for every reachable in-universe vertex, by layered relaxation"""
    dist = [(start, 0)]
    changed = True
    while changed:
        changed = False
        for pair in list(dist):
            x = pair[0]
            nbs, exc = ref_neighbors(x, d, u, ff)
            if exc is not None:
                return None
            for w in nbs:
                if not in_universe(uni, w):
                    continue
                known = False
                for q in dist:
                    if q[0] is w:
                        known = True
                if not known:
                    dist.append((w, pair[1] + 1))
                    changed = True
    # relax to shortest distances
    changed = True
    while changed:
        changed = False
        i = 0
        while i < len(dist):
            x, dx = dist[i]
            nbs, exc = ref_neighbors(x, d, u, ff)
            for w in nbs:
                j = 0
                while j < len(dist):
                    if (dist[j][0] is w) and (dist[j][1] > dx + 1):
                        dist[j] = (w, dx + 1)
                        changed = True
                    j = j + 1
            i = i + 1
    return dist


def distance_of(dist, x):
    for q in dist:
        if q[0] is x:
            return q[1]
    return -1


def bfs_layers_ok(order, dist):
    """hop distance never decreases along the listing"""
    i = 0
    while i + 1 < len(order):
        if distance_of(dist, order[i]) > distance_of(dist, order[i + 1]):
            return False
        i = i + 1
    return True


def preorder_ok(uni, order, d, u, ff):
    """after a vertex, its first not-yet-listed (in-universe) neighbour comes next, when it has one"""
    i = 0
    while i + 1 < len(order):
        x = order[i]
        nbs, exc = ref_neighbors(x, d, u, ff)
        nxt = None
        for w in nbs:
            if in_universe(uni, w) and not (w in order[:i + 1]) and (nxt is None):
                nxt = w
        if (nxt is not None) and not (order[i + 1] is nxt):
            return False
        i = i + 1
    return True
