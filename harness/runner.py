"""
Check runner: explores every configuration of a check with pysym, replays
counterexamples natively, validates path witnesses against CPython, applies the
known-findings file, writes the evidence file and sets the exit code.

exit 0  every obligation discharged within the stated bounds on every path,
        exploration exhausted, all sampled witnesses validated
exit 1  a natively reproduced violation that known_findings.json does not list
        (prints ``VIOLATION property=<id> replay=<path>``)
exit 2  inconclusive / harness error (solver unknown or time-out, unsupported
        construct, witness mismatch, non-reproducing counterexample, exploration
        not exhausted within the time budget).  Never reported as success.
"""
import hashlib
import importlib
import json
import os
import subprocess
import sys
import time
import traceback

VERIF = os.path.dirname(os.path.dirname(os.path.abspath(__file__)))
if VERIF not in sys.path:
    sys.path.insert(0, VERIF)
# where evidence/ and replays/ are written (mutation rehearsals redirect this)
OUT = os.environ.get("VERIF_OUT_DIR", VERIF)

sys.setrecursionlimit(20000)

from pysym.engine import explore_parallel, Stats, Infeasible, BoundHit, Inconclusive   # noqa: E402


def make_path_fn(spec):
    """factory used by the engine's workers"""
    from harness.symbackend import SymBackend
    from pysym.interp import PyExc
    check_id, configs, validate_mod, seed = spec["check"], spec["configs"], spec.get("validate_mod", 1), spec.get("seed", 0)
    mod = importlib.import_module("checks." + check_id.lower())

    def fn(ctx):
        # validate a deterministic sample of paths: all of them while
        # validate_mod == 1, else those whose trail hashes to 0
        ci = ctx.choose(len(configs)) if len(configs) > 1 else 0
        params = configs[ci]
        ctx.reach(f"cfg:{ci}")
        B = SymBackend(ctx, check_id, params, validate=True)
        try:
            mod.scenario(B, params)
        except BoundHit as b:
            if "call depth" in str(b) or "loop" in str(b):
                # possible non-termination: ask CPython (DESIGN 4.4)
                B.nontermination_witness(str(b))
            raise
        except PyExc as e:
            ctx.eng.stats.errors.append(f"uncaught interpreted exception escaped the scenario: {e} params={params}")
            return
        if validate_mod > 1:
            h = int(hashlib.sha1((repr(tuple(ctx.trail)) + str(seed)).encode()).hexdigest(), 16)
            B.validate = (h % validate_mod == 0)
        B.finish()
    return fn


def load_known():
    p = os.path.join(VERIF, "known_findings.json")
    if not os.path.exists(p):
        return {"findings": [], "fixed": []}
    return json.load(open(p))


def matches_known(finding, scenario, rec=None):
    from harness import known_helpers
    env = {k: getattr(known_helpers, k) for k in dir(known_helpers) if not k.startswith("_")}
    env.update({"s": scenario, "p": scenario.get("params", {}), "h": scenario.get("holes", {}) or {},
                "failed": (rec or {}).get("native_failed", []) or [(rec or {}).get("obligation", "")]})
    try:
        return bool(eval(finding["match"], {"__builtins__": {"len": len, "any": any, "all": all, "set": set, "str": str}}, env))
    except Exception:
        return False


def functions_evidence(functions):
    out = []
    for q, (path, lo, hi) in sorted(functions.items()):
        sha = ""
        try:
            lines = open(path).read().split("\n")[lo - 1:hi]
            sha = hashlib.sha1("\n".join(lines).encode()).hexdigest()[:12]
        except OSError:
            pass
        out.append({"function": q, "file": path, "lines": [lo, hi], "sha1": sha})
    return out


def run_check(check_id, tier, seed, log=print):
    t0 = time.time()
    mod = importlib.import_module("checks." + check_id.lower())
    root = os.environ.get("EDGEGRAPH_ROOT", "/repo")
    configs = mod.configs(tier)
    partial = os.environ.get("VERIF_DEBUG_CONFIGS")
    if partial:
        # development aid (sizing one configuration): a partial run is never reported as complete (exit 2)
        configs = [configs[int(i)] for i in partial.split(",")]
    budget = getattr(mod, "TIME_BUDGET", {"quick": 240, "thorough": 1500})[tier]
    total = Stats()
    exhausted_all = True
    per_config = []
    violations = []
    ctis = []
    unreproduced = []
    known = load_known()
    known_hits = {}
    validate_cap = getattr(mod, "VALIDATE_CAP", {"quick": 1500, "thorough": 3000})[tier]
    vm = getattr(mod, "VALIDATE_MOD", {"quick": 1, "thorough": 1})[tier]
    spec = ("harness.runner", "make_path_fn", {"check": check_id, "configs": configs, "validate_mod": vm, "seed": seed})
    st, exhausted = explore_parallel(spec, time_limit=budget, log=log,
                                     initial=[(i,) for i in range(len(configs) - 1, -1, -1)] if len(configs) > 1 else None)
    exhausted_all = exhausted and not partial
    total.merge(st)
    for ci, params in enumerate(configs):
        per_config.append({"params": params, "paths": st.reached.get(f"cfg:{ci}", 0)})
    log(f"[{check_id}] {len(configs)} configs: paths={st.paths} obl={st.obligations} "
        f"ok={st.discharged} failed={len(st.failed)} boundhits={st.bound_hits} validated={st.validated} "
        f"solver={st.solver_s:.1f}s wall={time.time() - t0:.1f}s{'' if exhausted else ' NOT EXHAUSTED'}")
    # ---- triage failures
    os.makedirs(os.path.join(OUT, "replays", check_id), exist_ok=True)
    seen = set()
    for rec in total.failed:
        sc = rec.get("scenario")
        key = json.dumps(sc, sort_keys=True)
        if rec.get("reproduced"):
            hit = None
            for f in known["findings"]:
                if f["property"] == check_id and matches_known(f, sc, rec):
                    hit = f
                    break
            if hit is not None:
                known_hits.setdefault(hit["id"], hit)
                continue
            if key in seen:
                continue
            seen.add(key)
            if rec.get("meta", {}).get("state_via") == "private":
                # counterexample to induction whose pre-state was not reached
                # through the public API: not a violation (DESIGN 4.1)
                ctis.append(rec)
                continue
            violations.append(rec)
        else:
            unreproduced.append(rec)
    # ---- vacuity: required reachability markers
    missing = []
    for m in getattr(mod, "required_markers", lambda tier: [])(tier):
        if total.reached.get(m, 0) == 0:
            missing.append(m)
    # ---- evidence
    status = 0
    lines = []
    for hid, f in known_hits.items():
        lines.append(f"KNOWN-FINDING: property={check_id} {f['text']}")
    for i, rec in enumerate(violations[:20]):
        path = os.path.join(OUT, "replays", check_id, f"violation_{i}.json")
        json.dump(rec["scenario"], open(path, "w"), indent=1)
        lines.append(f"VIOLATION property={check_id} replay={path}")
        lines.append(f"  obligation={rec['obligation']} native_failed={rec.get('native_failed')}")
        status = 1
    problems = []
    if ctis:
        path = os.path.join(OUT, "replays", check_id, "cti_0.json")
        json.dump(ctis[0], open(path, "w"), indent=1, default=str)
        names = sorted({c["obligation"] for c in ctis})
        print(f"NOTE[{check_id}]: induction not closed for {names}: {len(ctis)} counterexample(s) to induction whose "
              f"pre-state could not be reached through the public API (first: {path}); the claim for these "
              f"families is the bounded-history (BMC) result only")
    if total.errors:
        problems.append("harness errors: " + " | ".join((e if len(e) < 2600 else e[:300] + " ...[cut]... " + e[-2200:]) for e in total.errors[:3]))
    if unreproduced and not violations:
        r = unreproduced[0]
        path = os.path.join(OUT, "replays", check_id, "unreproduced_0.json")
        json.dump(r, open(path, "w"), indent=1, default=str)
        problems.append(f"{len(unreproduced)} counterexample(s) did not reproduce natively "
                        f"(encoding or stub suspect; first: obligation={r['obligation']}, see {path})")
    if not exhausted_all:
        problems.append("exploration not exhausted within the time budget")
    if missing:
        problems.append(f"vacuity: reachability markers never reached: {missing}")
    if total.paths == 0:
        problems.append("no path completed")
    only_bound = total.paths > 0 and total.bound_hits == total.paths
    if only_bound:
        problems.append("every path hit a bound")
    if status == 0 and problems:
        status = 2
    wall = time.time() - t0
    ev = {
        "property_id": check_id, "tier": tier, "seed": seed, "level": "model_checking",
        "coverage": {
            "states": total.paths, "transitions": max(total.steps, 0),
            "traces_validated_against_impl": total.validated,
            "samples": total.samples[:6] or [{"note": "no completed path"}],
            "obligations": total.obligations, "discharged": total.discharged,
            "obligations_by_name": total.obl_names,
            "solver_queries": total.checks, "solver_s": round(total.solver_s, 2),
            "bound_hits": total.bound_hits, "bound_hit_reasons": total.bound_notes,
            "infeasible_prefixes": total.infeasible,
            "exhaustive": bool(exhausted_all and not total.bound_hits),
            "exhaustive_within_bounds": bool(exhausted_all),
            "bounds": getattr(mod, "BOUNDS", {}).get(tier, getattr(mod, "BOUNDS", {})),
            "configs": per_config,
            "functions_encoded": functions_evidence(total.functions),
            "reachability_markers": total.reached,
            "stubs": getattr(mod, "STUBS", []),
            "second_opinion_cvc5": dict(zip(("obligations_re_decided", "agree", "no_opinion"), getattr(total, "second_opinion", [0, 0, 0]))),
            "engine": "pysym (source-level symbolic execution of " + root + ", re-parsed this run) + z3 " + _z3v(),
            "known_findings_matched": sorted(known_hits),
            "violations_reported": len(violations),
            "induction_not_closed": sorted({c["obligation"] for c in ctis}),
            "inconclusive_reasons": problems,
            "explanation": getattr(mod, "EXPLANATION", ""),
        },
        "assumptions": getattr(mod, "ASSUMPTIONS", []),
        "wall_s": round(wall, 2),
        "violations": len(violations),
    }
    if ev["coverage"]["states"] < 1:
        ev["coverage"]["states"] = 0
    os.makedirs(os.path.join(OUT, "evidence"), exist_ok=True)
    json.dump(ev, open(os.path.join(OUT, "evidence", check_id + ".json"), "w"), indent=1, default=str)
    for l in lines:
        print(l)
    for p in problems:
        print(f"INCONCLUSIVE[{check_id}]: {p}")
    print(f"[{check_id}] tier={tier} paths={total.paths} obligations={total.obligations} discharged={total.discharged} "
          f"violations={len(violations)} known={len(known_hits)} validated={total.validated} bound_hits={total.bound_hits} "
          f"queries={total.checks} solver={total.solver_s:.1f}s wall={wall:.1f}s exit={status}")
    return status


def _z3v():
    import z3
    return z3.get_version_string()


def replay(check_id, path):
    root = os.environ.get("EDGEGRAPH_ROOT", "/repo")
    env = dict(os.environ)
    env["PYTHONPATH"] = root + os.pathsep + VERIF
    env["EDGEGRAPH_ROOT"] = root
    sc = json.load(open(path))
    if "scenario" in sc:
        sc = sc["scenario"]
    sc.setdefault("check", check_id)
    tmp = path + ".req.json"
    json.dump(sc, open(tmp, "w"))
    try:
        out = subprocess.run([os.environ.get("VERIF_NATIVE_PY", "/venv/bin/python"),
                              os.path.join(VERIF, "harness", "native_server.py"), "--one", tmp],
                             env=env, capture_output=True, text=True)
    finally:
        os.unlink(tmp)
    print(out.stdout)
    if out.stderr.strip():
        print(out.stderr, file=sys.stderr)
    try:
        res = json.loads(out.stdout)
    except ValueError:
        return 2
    if res.get("error"):
        return 2
    bad = [n for n, ok in res["obligations"] if not ok]
    if bad:
        print(f"VIOLATION property={check_id} replay={path}")
        print("  failed natively:", bad)
        return 1
    print("replay: every obligation holds natively")
    return 0


def main(argv):
    import argparse
    if "--tier" in argv and "thorough" in argv and "VERIF_CVC5_SAMPLE" not in os.environ:
        os.environ["VERIF_CVC5_SAMPLE"] = "400"
    ap = argparse.ArgumentParser()
    ap.add_argument("check")
    ap.add_argument("--tier", default=os.environ.get("VERIF_TIER", "quick"), choices=["quick", "thorough"])
    ap.add_argument("--replay")
    a = ap.parse_args(argv)
    seed = int(os.environ.get("VERIF_SEED", "0") or 0)
    if a.replay:
        return replay(a.check.upper(), a.replay)
    try:
        return run_check(a.check.upper(), a.tier, seed)
    except Exception:
        traceback.print_exc()
        print(f"INCONCLUSIVE[{a.check.upper()}]: runner crashed")
        return 2


if __name__ == "__main__":
    sys.exit(main(sys.argv[1:]))
