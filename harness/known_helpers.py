"""
Predicates used by the ``match`` expressions of known_findings.json.  Each takes the filled scenario's
holes ``h`` and params ``p`` and says whether that scenario is an instance of the recorded finding - so that
a *different* violation of the same property is still reported.
"""


def c10_late_memo_cycle(h, p):
    """C10-KF1: a tuple-like abstract object (memoised only AFTER its elements, as pickle does for tuples and
    dill for by-value classes) that is reachable again from one of its own elements."""
    if p.get("mode") != "stream" or not p.get("late_memo"):
        return False
    nobj, nact = p["nobj"], p["nact"]
    saves = {}
    tuple_like = {}
    for o in range(nobj):
        x = f"obj{o}"
        tuple_like[x] = h.get(f"tuple_like{o}") == 1
        n = h.get(f"n{o}", 0)
        saves[x] = [h.get(f"c{o}_{j}") for j in range(min(n, nact - 1)) if h.get(f"k{o}_{j}") == 1]

    def reaches(a, b, seen=()):
        if a == b:
            return True
        return any(reaches(c, b, seen + (a,)) for c in saves.get(a, []) if c not in seen)
    return any(tuple_like[x] and any(reaches(c, x) for c in saves[x]) for x in saves)
