"""
Native backend: runs a filled scenario against the real edgegraph under
/venv/bin/python.  No z3 here.
"""
import importlib
import sys
import types

from harness.api import BackendBase, HarnessError, STRUCT_CLASSES, COMMON_CLASSES_SRC, normalise_str


class _Table:
    """a user call-back filled from the model: a table over labels"""

    def __init__(self, B, name, spec, ret):
        self.B = B
        self.name = name
        self.ret = ret
        self.table = {tuple(k): v for k, v in spec.get("table", [])}
        self.default = spec.get("default")
        self.fault = spec.get("fault")
        self.calls = 0
        self.__name__ = name

    def __call__(self, *args):
        idx = self.calls
        self.calls += 1
        if self.fault is not None and idx == self.fault:
            raise self.B.classes[getattr(self, "fault_cls", "HarnessFault")]("injected fault")
        key = tuple(self.B.label_of(a) for a in args)
        if key in self.table:
            return self.table[key]
        if self.default is not None:
            return self.default
        raise HarnessError(f"call-back {self.name} called on {key}, not in the model's table")


class _UnhashableTable(_Table):
    """a call-back object with value equality and no hash (legal: any callable may be a filter)"""
    __hash__ = None

    def __eq__(self, other):
        return self is other


class _FalsyTable(_Table):
    """a call-back object that is falsy (an empty callable container: __len__ == 0)"""
    def __len__(self):
        return 0


class NativeBackend(BackendBase):
    sym = False

    def __init__(self, holes):
        self.holes = holes
        self.objects = {}            # label -> object
        self.labels = {}             # id(obj) -> label
        self.keep = []
        self.classes = {}
        self.obligations = []
        self.observables = {}
        self.assume_failed = []
        self.reached = []
        self.meta = {}
        self._reset_library_state()
        ns = self.define(COMMON_CLASSES_SRC)

    def _reset_library_state(self):
        from edgegraph.structure.vertex import Vertex
        from edgegraph.structure import singleton
        Vertex.NEIGHBOR_CACHING = False
        Vertex._CACHE_STATS = {}
        singleton.clear_true_singleton()      # through the public API: keeps whatever table type the code uses

    # ---- classes / objects
    def cls(self, name):
        if name in self.classes:
            return self.classes[name]
        modname, attr = STRUCT_CLASSES[name]
        c = getattr(importlib.import_module(modname), attr)
        self.classes[name] = c
        return c

    def define(self, src):
        ns = {"__name__": "__harness__"}
        exec(compile(src, "<harness>", "exec"), ns)
        for k, v in ns.items():
            if isinstance(v, type):
                self.classes[k] = v
        return ns

    def fn(self, dotted):
        modname, attr = dotted.rsplit(".", 1)
        return getattr(importlib.import_module(modname), attr)

    def label(self, obj, label):
        self.objects[label] = obj
        self.labels[id(obj)] = label
        self.keep.append(obj)
        return obj

    def label_of(self, obj):
        if obj is None:
            return None
        return self.labels.get(id(obj), "?")

    def new(self, label, clsname, *args, **kw):
        obj = self.cls(clsname)(*args, **kw)
        return self.label(obj, label)

    def is_known(self, v):
        return id(v) in self.labels

    def adopt(self, v, label):
        if v is None or isinstance(v, (bool, int, str, float, list, tuple, set, dict)):
            return []
        if id(v) in self.labels:
            return []
        self.label(v, label)
        return [v]

    def discover(self, owners, field, prefix):
        found = []
        for o in owners:
            lst = o.__dict__.get(field)
            if not isinstance(lst, list):
                continue
            for e in lst:
                if e is not None and id(e) not in self.labels and not any(e is f for f in found):
                    found.append(e)
        for i, c in enumerate(found):
            self.label(c, f"{prefix}{i}")
        return found

    def new_raw(self, label, clsname):
        """an instance created without running __init__ (e.g. un-pickled)"""
        c = self.cls(clsname)
        obj = c.__new__(c)
        return self.label(obj, label)

    # ---- holes
    def _hole(self, name):
        if name not in self.holes:
            raise HarnessError(f"scenario has no value for hole {name!r}")
        return self.holes[name]

    def _obj(self, lab):
        if lab is None:
            return None
        return self.objects[lab]

    def ref(self, name, cands, allow_none=False):
        return self._obj(self._hole(name))

    def int(self, name, lo=None, hi=None):
        v = self._hole(name)
        if (lo is not None and v < lo) or (hi is not None and v > hi):
            raise HarnessError(f"hole {name}={v} outside [{lo},{hi}]")
        return v

    def bool(self, name):
        return bool(self._hole(name))

    def choice(self, name, n):
        return self.int(name, 0, n - 1)

    def reflist(self, name, cands, maxlen, cap=None, allow_none=False):
        return [self._obj(x) for x in self._hole(name)]

    def intlist(self, name, maxlen, lo=None, hi=None, cap=None):
        return list(self._hole(name))

    def mklist(self, values):
        return list(values)

    def symlist(self, values, n):
        return list(values)[:n]

    def mktuple(self, values):
        return tuple(values)

    def mkdict(self, pairs):
        return {k: v for k, v in pairs}

    def uf(self, name, domains, ret="bool", fault=False, fault_cls="HarnessFault", unhashable=False, falsy=False):
        t = (_UnhashableTable if unhashable else _FalsyTable if falsy else _Table)(self, name, self._hole(name), ret)
        t.fault_cls = fault_cls
        self.keep.append(t)
        self.labels[id(t)] = name
        self.objects[name] = t
        return t

    def uf_twin(self, t):
        tw = _Table(self, t.name + ".ok", {"table": []}, t.ret)
        tw.table = t.table
        tw.default = t.default
        self.keep.append(tw)
        self.labels[id(tw)] = t.name + ".ok"
        self.objects[t.name + ".ok"] = tw
        return tw

    # ---- private state
    def set_field(self, obj, field, value):
        obj.__dict__[field] = value

    def set_attr(self, obj, name, value):
        setattr(obj, name, value)

    def get_field(self, obj, field):
        return obj.__dict__[field]

    def get_public(self, obj, name):
        return list(getattr(obj, name))

    def has_field(self, obj, field):
        return field in obj.__dict__

    def set_class_attr(self, clsname, attr, value):
        setattr(self.cls(clsname), attr, value)

    # ---- formulas
    def contains(self, lst, x):
        return any(e is x for e in lst)

    def count(self, lst, x):
        return sum(1 for e in lst if e is x)

    def is_(self, a, b):
        return a is b

    def eq(self, a, b):
        return a == b

    def le(self, a, b):
        return a <= b

    def lt(self, a, b):
        return a < b

    def len_(self, lst):
        return len(lst)

    def str_startswith(self, s, prefix):
        return s.startswith(prefix)

    def nodup(self, lst):
        return all(not (lst[i] is lst[j]) for i in range(len(lst)) for j in range(i + 1, len(lst)))

    def elem_all(self, lst, pred):
        """pred holds for every live element"""
        return all(pred(e) for e in lst)

    def consecutive_all(self, lst, pred2):
        return all(pred2(lst[i], lst[i + 1]) for i in range(len(lst) - 1))

    def list_eq(self, a, b):
        a, b = list(a), list(b)
        return len(a) == len(b) and all(x is y or (not _isobj(x) and x == y) for x, y in zip(a, b))

    def ite(self, c, a, b):
        return a if c else b

    def truth(self, c):
        return bool(c)

    def concrete_len(self, lst):
        return len(lst)

    def items(self, lst):
        return list(lst)

    def add(self, a, b):
        return a + b

    # ---- assumptions / obligations / observation
    def assume(self, cond, what=""):
        if not cond:
            self.assume_failed.append(what or "assumption")
            raise HarnessError(f"filled scenario violates the harness assumption {what!r}")

    def prove(self, name, cond):
        self.obligations.append([name, bool(cond)])
        return bool(cond)

    def observe(self, name, value):
        self.observables[name] = value

    def reach(self, marker):
        self.reached.append(marker)

    # ---- programs
    def run(self, src, env):
        g = dict(env)
        g.setdefault("__name__", "__harness__")
        exec(compile(src, "<program>", "exec"), g)
        return g

    # ---- abstraction of observables
    def idmap(self):
        return {id(o): "<" + lab + ">" for lab, o in self.objects.items()}

    def abstract(self, v, idmap=None, inset=False):
        if idmap is None:
            idmap = self.idmap()
        if v is None or isinstance(v, (bool, int)):
            return v
        if isinstance(v, float):
            return v
        if isinstance(v, str):
            return normalise_str(v, idmap)
        if isinstance(v, (list, tuple)):
            return [self.abstract(x, idmap) for x in v]
        if isinstance(v, (set, frozenset)):
            return {"$set": sorted((self.abstract(x, idmap, True) for x in v), key=repr)}
        if isinstance(v, (dict, types.MappingProxyType)):
            return {"$dict": [[self.abstract(k, idmap), self.abstract(x, idmap)] for k, x in v.items()]}
        if isinstance(v, type):
            return {"$cls": v.__name__}
        lab = self.labels.get(id(v))
        if lab is not None:
            return {"$": lab}
        if isinstance(v, BaseException):
            return {"$exc": type(v).__name__}
        return {"$new": type(v).__name__}

    # ---- C10: the abstract base pickler under the REAL nrpickler module
    def with_fake_dill(self, src):
        import inspect
        fake = types.ModuleType("dill")
        fake.depth_probe = lambda: len(inspect.stack())
        exec(compile(src, "<fake dill>", "exec"), fake.__dict__)
        saved = {k: sys.modules.get(k) for k in ("dill", "edgegraph.output.nrpickler")}
        sys.modules["dill"] = fake
        sys.modules.pop("edgegraph.output.nrpickler", None)
        try:
            nr = importlib.import_module("edgegraph.output.nrpickler")
        finally:
            # restore the real modules for everybody else; ``nr`` keeps its reference to the fake base class
            for k, v in saved.items():
                if v is None:
                    sys.modules.pop(k, None)
                else:
                    sys.modules[k] = v
            import edgegraph.output as _out
            if saved["edgegraph.output.nrpickler"] is not None:
                _out.nrpickler = saved["edgegraph.output.nrpickler"]
            elif hasattr(_out, "nrpickler"):
                delattr(_out, "nrpickler")
        env = dict(fake.__dict__)
        env["nrpickler"] = nr
        return env

    def native_only(self, fn):
        fn(self)

    # ---- random number generator: answers taken from the model
    def install_rng(self):
        import random
        self._rng = list(self.holes.get("$rng", []))
        self._rng_pos = 0
        B = self

        def nxt(kind):
            if B._rng_pos >= len(B._rng):
                raise HarnessError("the real code asked the RNG for more answers than the model has")
            e = B._rng[B._rng_pos]
            B._rng_pos += 1
            if e[0] != kind:
                raise HarnessError(f"RNG call order differs: model has {e[0]}, code called {kind}")
            return e[1]

        def randint(a, b):
            v = nxt("randint")
            if not (a <= v <= b):
                raise HarnessError(f"model randint value {v} outside [{a},{b}]")
            return v

        def sample(pop, k):
            if k < 0 or k > len(pop):
                raise ValueError("Sample larger than population or is negative")
            idx = nxt("sample")
            if len(idx) != k:
                raise HarnessError(f"model sample size {len(idx)} != requested {k}")
            return [pop[i] for i in idx]
        self._rng_saved = (random.randint, random.sample)
        random.randint, random.sample = randint, sample

    def rng_rewind(self):
        self._rng_pos = 0

    def rng_consumed(self):
        """did the code under test take every random answer from the (patched) random module?"""
        return self._rng_pos == len(self._rng) and not self.meta.get("rng_diverged")

    def oracle_ints(self, name, n):
        vals = list(self._hole(name))
        state = {"j": 0}

        def pick(r):
            j = state["j"]
            state["j"] += 1
            v = vals[j]
            if not (0 <= v <= r):
                # the code under test did not follow the model's RNG answers (it may draw from another generator):
                # remember it - the scenario reports it - and stay within the contract
                self.meta["rng_diverged"] = True
                return max(0, min(v, r))
            return v
        return pick

    def restore_patches(self):
        import random
        if getattr(self, "_rng_saved", None):
            random.randint, random.sample = self._rng_saved
            self._rng_saved = None
        for mod, attr, val in getattr(self, "_patched", []):
            setattr(mod, attr, val)
        self._patched = []

    # ---- reaching an installed pre-state through the public API (DESIGN 4.1)
    def try_public_assoc(self, verts, links):
        """The association lists of ``verts``/``links`` were installed privately
        (inductive-step pre-state).  Try to reach exactly that state with public
        API calls on the same objects, starting from their constructed state.
        Sets meta['state_via'] to 'public' (with the history) or 'private'."""
        target_v = {id(v): list(v.__dict__["_links"]) for v in verts}
        target_l = {id(l): list(l.__dict__["_vertices"]) for l in links}
        TwoEnded = self.cls("TwoEndedLink")
        hist = []

        def restore():
            for v in verts:
                v.__dict__["_links"] = list(target_v[id(v)])
            for l in links:
                l.__dict__["_vertices"] = list(target_l[id(l)])
        try:
            for v in verts:
                v.__dict__["_links"] = []
            events = []          # [link, position, vertex, kind, done]
            for l in links:
                tgt = target_l[id(l)]
                two = isinstance(l, TwoEnded) and len(tgt) >= 2
                if isinstance(l, TwoEnded):
                    l.__dict__["_vertices"] = [None, None]
                    if not two:
                        l.unlink_from(None)
                        l.unlink_from(None)
                        hist.append(f"{self.label_of(l)}.unlink_from(None) x2")
                else:
                    l.__dict__["_vertices"] = []
                for i, x in enumerate(tgt):
                    events.append([l, i, x, "set" if (two and i < 2) else "add", False])
            ptr = {id(v): 0 for v in verts}

            def enabled(ev):
                l, i, x, kind, done = ev
                if done:
                    return False
                if kind == "add":
                    for e2 in events:
                        if e2[0] is l and e2[3] == "add" and e2[1] < i and not e2[4]:
                            return False
                if x is None:
                    return True
                if any(e is l for e in x.__dict__["_links"]):
                    return True
                tl = target_v[id(x)]
                return ptr[id(x)] < len(tl) and tl[ptr[id(x)]] is l
            progress = True
            while progress:
                progress = False
                for ev in events:
                    if enabled(ev):
                        l, i, x, kind, _ = ev
                        if kind == "set":
                            if i == 0:
                                l.v1 = x
                            else:
                                l.v2 = x
                            hist.append(f"{self.label_of(l)}.v{i + 1} = {self.label_of(x)}")
                        else:
                            l.add_vertex(x)
                            hist.append(f"{self.label_of(l)}.add_vertex({self.label_of(x)})")
                        ev[4] = True
                        if x is not None:
                            tl = target_v[id(x)]
                            while ptr[id(x)] < len(tl) and any(e is tl[ptr[id(x)]] for e in x.__dict__["_links"]):
                                ptr[id(x)] += 1
                        progress = True
            ok = all(ev[4] for ev in events)
            ok = ok and all(_same(v.__dict__["_links"], target_v[id(v)]) for v in verts)
            ok = ok and all(_same(l.__dict__["_vertices"], target_l[id(l)]) for l in links)
        except Exception:
            ok = False
        # the recipe may have touched caches / statistics only; lists are what matters
        if ok:
            self.meta["state_via"] = "public"
            self.meta["history"] = hist
        else:
            restore()
            self.meta["state_via"] = "private"

    def try_public_membership(self, objs, unis):
        """reach the privately installed membership state with Universe.add_vertex calls"""
        tm = {id(u): list(u.__dict__["_vertices"]) for u in unis}
        tu = {id(o): list(o.__dict__["_universes"]) for o in objs}
        hist = []

        def restore():
            for u in unis:
                u.__dict__["_vertices"] = list(tm[id(u)])
            for o in objs:
                o.__dict__["_universes"] = list(tu[id(o)])
        try:
            for u in unis:
                u.__dict__["_vertices"] = []
            for o in objs:
                o.__dict__["_universes"] = []
            progress = True
            while progress:
                progress = False
                for u in unis:
                    cur = u.__dict__["_vertices"]
                    if len(cur) >= len(tm[id(u)]):
                        continue
                    x = tm[id(u)][len(cur)]
                    cx = x.__dict__["_universes"]
                    if len(cx) < len(tu[id(x)]) and tu[id(x)][len(cx)] is u:
                        u.add_vertex(x)
                        hist.append(f"{self.label_of(u)}.add_vertex({self.label_of(x)})")
                        progress = True
            ok = all(_same(u.__dict__["_vertices"], tm[id(u)]) for u in unis) and \
                all(_same(o.__dict__["_universes"], tu[id(o)]) for o in objs)
        except Exception:
            ok = False
        if ok:
            self.meta["state_via"] = "public"
            self.meta["history"] = hist
        else:
            restore()
            self.meta["state_via"] = "private"

    def try_public_laws(self, unis, laws):
        """reach the privately installed universe<->laws binding with the public setters"""
        tgt = {id(u): u.__dict__["_laws"] for u in unis}
        tl = {id(L): L.__dict__["_applies_to"] for L in laws}
        hist = []
        try:
            # constructed state first (each pool universe bound to its own law set is
            # whatever the constructor left; we only need *a* public history)
            for u in unis:
                u.__dict__["_laws"] = None
            for L in laws:
                L.__dict__["_applies_to"] = None
            for u in unis:
                if tgt[id(u)] is not None:
                    u.laws = tgt[id(u)]
                    hist.append(f"{self.label_of(u)}.laws = {self.label_of(tgt[id(u)])}")
            ok = all(u.__dict__["_laws"] is tgt[id(u)] for u in unis) and \
                all(L.__dict__["_applies_to"] is tl[id(L)] for L in laws)
        except Exception:
            ok = False
        if ok:
            self.meta["state_via"] = "public"
            self.meta["history"] = ["all universes detached (u.laws = None)"] + hist
        else:
            for u in unis:
                u.__dict__["_laws"] = tgt[id(u)]
            for L in laws:
                L.__dict__["_applies_to"] = tl[id(L)]
            self.meta["state_via"] = "private"

    def result(self):
        idmap = self.idmap()
        return {
            "meta": self.meta,
            "obligations": self.obligations,
            "observables": {k: self.abstract(v, idmap) for k, v in self.observables.items()},
            "reached": self.reached,
        }


def _same(a, b):
    return len(a) == len(b) and all(x is y for x, y in zip(a, b))


def _isobj(x):
    return not (x is None or isinstance(x, (bool, int, str, float, tuple, list)))
