"""
Native replay server: reads one JSON request per line
  {"check": "C04", "params": {...}, "holes": {...}}
runs the check's scenario against the REAL edgegraph (whatever PYTHONPATH puts
first; the checks put $EDGEGRAPH_ROOT there) and answers with one JSON line
  {"obligations": [[name, bool], ...], "observables": {...}}  or  {"error": "..."}.
Runs under /venv/bin/python; must not import z3.
"""
import importlib
import json
import os
import sys
import traceback

VERIF = os.path.dirname(os.path.dirname(os.path.abspath(__file__)))
if VERIF not in sys.path:
    sys.path.insert(1, VERIF)
if os.path.join(VERIF, "harness") not in sys.path:
    sys.path.insert(2, os.path.join(VERIF, "harness"))     # "import refmodel"

sys.setrecursionlimit(5000)


def handle(req):
    from harness.nativebackend import NativeBackend
    from harness.api import HarnessError
    mod = importlib.import_module("checks." + req["check"].lower())
    B = NativeBackend(req["holes"])
    try:
        mod.scenario(B, req["params"])
    except HarnessError as e:
        return {"error": "HarnessError: " + str(e)}
    except Exception:
        return {"error": "native scenario raised:\n" + traceback.format_exc()}
    finally:
        B.restore_patches()
    return B.result()


def main():
    proto = sys.stdout
    sys.stdout = sys.stderr          # library prints must not corrupt the protocol
    import edgegraph
    root = os.environ.get("EDGEGRAPH_ROOT", "/repo")
    if not os.path.realpath(edgegraph.__file__).startswith(os.path.realpath(root) + os.sep):
        proto.write(json.dumps({"error": f"edgegraph imported from {edgegraph.__file__}, expected under {root}"}) + "\n")
        proto.flush()
        return
    if len(sys.argv) > 2 and sys.argv[1] == "--one":
        req = json.load(open(sys.argv[2]))
        proto.write(json.dumps(handle(req), indent=1, default=str) + "\n")
        return
    for line in sys.stdin:
        line = line.strip()
        if not line:
            continue
        try:
            out = handle(json.loads(line))
        except Exception:
            out = {"error": "server exception:\n" + traceback.format_exc()}
        proto.write(json.dumps(out, default=str) + "\n")
        proto.flush()


if __name__ == "__main__":
    main()
