"""
pysym path engine: DART-style re-execution with a decision trail; z3 decides
feasibility of every branch and every obligation.

One *path* = one execution of the harness function under a decision prefix.
Decisions inside the prefix are replayed without consulting the solver; beyond
it, both sides of a branch are checked for feasibility under the path condition
and the untaken feasible side is pushed on the work list.

Exploration is split over worker processes by decision prefix (see
``explore_parallel``).
"""
import os
import sys
import time
import traceback
import importlib
import multiprocessing as mp

import z3


class Infeasible(Exception):
    """The current path condition is unsatisfiable (path does not exist)."""


class BoundHit(Exception):
    """A stated bound (list capacity, call depth, loop limit) was exceeded on
    this path; the path is cut and *counted* -- never reported as success."""


class Inconclusive(Exception):
    """Solver said unknown / timed out, or the engine met a construct it does
    not model.  The whole check is inconclusive (exit code 2)."""


SOLVER_TIMEOUT_MS = int(os.environ.get("PYSYM_SOLVER_TIMEOUT_MS", "60000"))
# thorough tier: every N-th non-trivial obligation is re-decided by the cvc5 binary (0 = off)
def cvc5_sample():
    return int(os.environ.get("VERIF_CVC5_SAMPLE", "0") or 0)


class Stats:
    FIELDS = ("paths", "checks", "solver_s", "bound_hits", "obligations", "discharged",
              "infeasible", "validated", "steps")

    def __init__(self):
        self.paths = 0
        self.checks = 0
        self.solver_s = 0.0
        self.bound_hits = 0
        self.obligations = 0
        self.discharged = 0
        self.infeasible = 0
        self.validated = 0          # path witnesses replayed natively and found equal
        self.steps = 0              # interpreted calls of repository functions
        self.failed = []            # failure records (dicts)
        self.errors = []            # harness errors (strings)
        self.samples = []           # filled scenarios
        self.functions = {}         # qualname -> (file, lineno, end_lineno)
        self.bound_notes = {}       # reason -> count
        self.obl_names = {}         # obligation name -> [n, discharged]
        self.reached = {}           # reachability markers -> count

    def merge(self, o):
        for f in self.FIELDS:
            setattr(self, f, getattr(self, f) + getattr(o, f))
        self.failed.extend(o.failed)
        self.errors.extend(o.errors)
        for s in o.samples:
            if len(self.samples) < 12:
                self.samples.append(s)
        self.functions.update(o.functions)
        for k, v in o.bound_notes.items():
            self.bound_notes[k] = self.bound_notes.get(k, 0) + v
        for k, v in o.obl_names.items():
            cur = self.obl_names.setdefault(k, [0, 0])
            cur[0] += v[0]
            cur[1] += v[1]
        for k, v in o.reached.items():
            self.reached[k] = self.reached.get(k, 0) + v
        so = getattr(o, "second_opinion", None)
        if so:
            mine = getattr(self, "second_opinion", [0, 0, 0])
            self.second_opinion = [x + y for x, y in zip(mine, so)]


class Ctx:
    """Per-path context: decision trail, path condition, solver."""

    def __init__(self, prefix, eng):
        self.prefix = prefix
        self.eng = eng
        self.trail = []
        self.solver = z3.Solver()
        self.solver.set("timeout", SOLVER_TIMEOUT_MS)
        self.fresh = 0
        self.pc = []
        self.holes = []          # filled in by the symbolic backend
        self.notes = {}
        self.known_sat = True    # is the current path condition known to be satisfiable?
        self.decided = {}        # z3 ast id -> (term, bool): literals already on the path condition

    # ---- fresh symbols (deterministic names => identical terms on re-execution)
    def fresh_name(self, name):
        self.fresh += 1
        return f"{name}!{self.fresh}"

    def fresh_int(self, name="i"):
        return z3.Int(self.fresh_name(name))

    def fresh_bool(self, name="b"):
        return z3.Bool(self.fresh_name(name))

    def fresh_str(self, name="s"):
        return z3.String(self.fresh_name(name))

    def _check(self, *terms):
        t0 = time.time()
        r = self.solver.check(*terms)
        st = self.eng.stats
        st.solver_s += time.time() - t0
        st.checks += 1
        if r == z3.unknown:
            raise Inconclusive("solver returned unknown: " + self.solver.reason_unknown())
        return r == z3.sat

    def assume(self, term):
        if isinstance(term, bool):
            if not term:
                raise Infeasible()
            return
        if z3.is_true(term):
            return
        if z3.is_false(term):
            raise Infeasible()
        self.solver.add(term)
        self.pc.append(term)
        self.known_sat = False

    def decide(self, term):
        """Branch on a z3 Bool term; returns a python bool."""
        if isinstance(term, bool):
            return term
        r = z3.Z3_get_bool_value(term.ctx.ref(), term.ast)
        if r == 1:
            return True
        if r == -1:
            return False
        # a literal that is already part of the path condition needs neither a
        # solver call nor a trail entry (z3 hash-conses terms: same structure, same id)
        hit = self.decided.get(term.get_id())
        if hit is not None:
            return hit[1]
        pos = len(self.trail)
        if pos < len(self.prefix):
            choice = self.prefix[pos]
        else:
            # the path condition is satisfiable here (engine invariant), so if
            # one side is infeasible the other one is feasible.
            if self._check(term):
                if self._check(z3.Not(term)):
                    self.eng.worklist.append(tuple(self.trail) + (False,))
                choice = True
            else:
                if not self.known_sat and not self._check(z3.Not(term)):
                    raise Infeasible()
                choice = False
            self.known_sat = True
        self.trail.append(choice)
        lit = term if choice else z3.Not(term)
        self.solver.add(lit)
        self.pc.append(lit)
        self.decided[term.get_id()] = (term, choice)
        if z3.is_not(term):
            inner = term.arg(0)
            self.decided[inner.get_id()] = (inner, not choice)
        return choice

    def choose(self, n):
        """a solver-free n-way fork (used to pick a configuration)"""
        pos = len(self.trail)
        if pos < len(self.prefix):
            c = self.prefix[pos]
        else:
            for i in range(n - 1, 0, -1):
                self.eng.worklist.append(tuple(self.trail) + (i,))
            c = 0
        self.trail.append(c)
        return c

    def feasible(self):
        return self._check()

    def model(self, extra=()):
        """A model of the path condition (plus extra terms), or None."""
        if self._check(*extra):
            return self.solver.model()
        return None

    def prove(self, term, name, on_fail=None):
        """Obligation: under the path condition, ``term`` must hold.
        on_fail(model) -> failure record (dict) or None when the counterexample
        did not reproduce natively and was blocked (then we re-ask)."""
        st = self.eng.stats
        st.obligations += 1
        cnt = st.obl_names.setdefault(name, [0, 0])
        cnt[0] += 1
        if isinstance(term, bool):
            ok = term
            neg = None
        else:
            if z3.is_true(term):
                ok = True
            elif z3.is_false(term):
                ok = False
            else:
                neg = z3.Not(term)
                ok = not self._check(neg)
                n = cvc5_sample()
                if n:
                    st.nontrivial = getattr(st, "nontrivial", 0) + 1
                    if st.nontrivial % n == 1:
                        self._second_opinion(neg, ok, name)
        if ok:
            st.discharged += 1
            cnt[1] += 1
            return True
        if isinstance(term, bool) or z3.is_false(term):
            neg = None
        rec = None
        if on_fail is not None:
            rec = on_fail(neg)
        else:
            rec = {"obligation": name}
        if rec is not None:
            rec.setdefault("obligation", name)
            st.failed.append(rec)
        return False

    def _second_opinion(self, neg, z3_says_valid, name):
        """thorough tier: re-decide a sample of the obligations with the cvc5 binary (QF_UFLIA / strings)"""
        import subprocess
        import tempfile
        st = self.eng.stats
        s2 = z3.Solver()
        for t in self.pc:
            s2.add(t)
        s2.add(neg)
        smt = s2.to_smt2()
        if "String" in smt or "str." in smt or "re." in smt:
            return          # cvc5 1.0.3 and z3 disagree on string *syntax* extensions; strings are z3-only here
        smt = "(set-logic ALL)\n" + smt
        fd, path = tempfile.mkstemp(suffix=".smt2")
        try:
            with os.fdopen(fd, "w") as fh:
                fh.write(smt)
            r = subprocess.run(["cvc5", "--tlimit=20000", path], capture_output=True, text=True, timeout=40)
            out = (r.stdout.strip().splitlines() or ["?"])[0]
        except Exception as exc:        # noqa
            out = "error: " + str(exc)
        finally:
            os.unlink(path)
        st.second_opinion = getattr(st, "second_opinion", [0, 0, 0])
        st.second_opinion[0] += 1
        if out in ("sat", "unsat"):
            cvc5_valid = (out == "unsat")
            if cvc5_valid == z3_says_valid:
                st.second_opinion[1] += 1
            else:
                st.errors.append(f"solver disagreement on obligation {name!r}: z3 says valid={z3_says_valid}, cvc5 says {out}")
        else:
            st.second_opinion[2] += 1      # unknown / time-out / parse problem: no opinion

    def reach(self, marker):
        r = self.eng.stats.reached
        r[marker] = r.get(marker, 0) + 1


class Engine:
    def __init__(self, worklist=None):
        self.worklist = list(worklist) if worklist is not None else [()]
        self.stats = Stats()

    def explore(self, fn, max_paths=None, stop_on_fail=False, deadline=None):
        """Explore until the work list is empty, or max_paths / deadline hit.
        Returns True if exhausted."""
        n = 0
        while self.worklist:
            if max_paths is not None and n >= max_paths:
                return False
            if deadline is not None and time.time() > deadline:
                return False
            prefix = self.worklist.pop()
            ctx = Ctx(prefix, self)
            n += 1
            try:
                fn(ctx)
            except Infeasible:
                self.stats.infeasible += 1
                continue
            except BoundHit as b:
                self.stats.bound_hits += 1
                k = str(b) or "bound"
                self.stats.bound_notes[k] = self.stats.bound_notes.get(k, 0) + 1
            except Inconclusive as e:
                # this path cannot be decided (unsupported construct, solver unknown): the run as a whole is
                # inconclusive (never exit 0), but the other paths are still explored - a reproducible violation
                # elsewhere is worth more than an early stop
                self.stats.errors.append("inconclusive: " + str(e))
                if len(self.stats.errors) > 25:
                    return False
                continue
            except Exception:
                self.stats.errors.append("worker exception:\n" + traceback.format_exc())
                if len(self.stats.errors) > 25:
                    return False
                continue
            self.stats.paths += 1
            if stop_on_fail and self.stats.failed:
                return False
        return True


# --------------------------------------------------------------------------- parallel driver
_WORKER = {}


def _worker_run(spec, prefixes, budget, deadline):
    """Runs in a pool process: explore the sub-trees below ``prefixes`` for at
    most ``budget`` paths; returns (stats, leftover prefixes)."""
    try:
        modname, fname, params = spec
        key = (modname, fname, repr(sorted(params.items())) if isinstance(params, dict) else repr(params))
        fn = _WORKER.get(key)
        if fn is None:
            mod = importlib.import_module(modname)
            fn = getattr(mod, fname)(params)
            _WORKER.clear()
            _WORKER[key] = fn
        eng = Engine(worklist=prefixes)
        eng.explore(fn, max_paths=budget, deadline=deadline)
        return eng.stats, list(eng.worklist)
    except Inconclusive as e:
        st = Stats()
        st.errors.append("inconclusive: " + str(e))
        return st, []
    except Exception:        # harness error: report, never pass
        st = Stats()
        st.errors.append("worker exception:\n" + traceback.format_exc())
        return st, []


def explore_parallel(spec, nproc=None, budget=40, time_limit=None, seed_paths=24, log=None, initial=None):
    """spec = (module name, factory name, params).  The factory is called as
    factory(params) in each worker and must return fn(ctx).
    Returns (Stats, exhausted: bool)."""
    nproc = nproc or int(os.environ.get("VERIF_NPROC", "0")) or min(16, os.cpu_count() or 4)
    deadline = time.time() + time_limit if time_limit else None
    total = Stats()
    # seed sequentially so that the pool starts with several prefixes
    modname, fname, params = spec
    mod = importlib.import_module(modname)
    fn = getattr(mod, fname)(params)
    eng = Engine(worklist=initial)
    try:
        done = eng.explore(fn, max_paths=(0 if initial is not None and len(initial) >= nproc else seed_paths), deadline=deadline)
    except Inconclusive as e:
        total.errors.append("inconclusive: " + str(e))
        return total, False
    total.merge(eng.stats)
    if done or nproc <= 1:
        if not done:
            eng2 = Engine(worklist=eng.worklist)
            try:
                done = eng2.explore(fn, deadline=deadline)
            except Inconclusive as e:
                total.errors.append("inconclusive: " + str(e))
                done = False
            total.merge(eng2.stats)
        return total, done
    pending = list(eng.worklist)
    exhausted = True
    ctxm = mp.get_context("fork")
    with ctxm.Pool(nproc) as pool:
        inflight = []
        last_log = time.time()
        while pending or inflight:
            if deadline is not None and time.time() > deadline:
                exhausted = False
                break
            while pending and len(inflight) < nproc * 2:
                # hand out a small batch of prefixes (deepest first = smaller sub-trees last)
                batch = [pending.pop()]
                inflight.append(pool.apply_async(_worker_run, (spec, batch, budget, deadline)))
            still = []
            progressed = False
            for r in inflight:
                if r.ready():
                    st, left = r.get()
                    total.merge(st)
                    pending.extend(left)
                    progressed = True
                else:
                    still.append(r)
            inflight = still
            if len(total.errors) > 200:
                exhausted = False
                break
            if not progressed:
                time.sleep(0.01)
            if log and time.time() - last_log > 15:
                last_log = time.time()
                log(f"  ... paths={total.paths} pending={len(pending)} inflight={len(inflight)} "
                    f"failed={len(total.failed)} boundhits={total.bound_hits}")
        if not exhausted:
            pool.terminate()
    return total, exhausted and not total.errors
