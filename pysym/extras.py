"""
pysym extras: language constructs and standard-library helpers that a *refactored* edgegraph may use
(with, match, walrus, operator / functools / itertools / contextlib, iter(callable, sentinel), ...).
Imported at the end of interp.py; everything here extends ``Interp`` in place.
"""
import ast

import z3

from . import interp as P
from .interp import (Interp, NativeFunc, PModule, PList, PDict, PSet, GenObj, Obj, ClassObj, SymRef, SInt, SBool, SStr,
                     FuncObj, BoundMethod, Unsupported, PyExc, Frame, STUB_MODULES, ReturnSig, BreakSig, ContinueSig)


# --------------------------------------------------------------------------- statements / expressions
def e_NamedExpr(self, e, fr):
    v = self.eval(e.value, fr)
    # PEP 572: binds in the enclosing function scope (comprehension frames are skipped)
    f = fr
    while getattr(f, "is_comp", False) and f.closure is not None:
        f = f.closure
    self.assign(e.target, v, f)
    return v


Interp.e_NamedExpr = e_NamedExpr


def x_With(self, st, fr):
    if len(st.items) != 1:
        # nest
        inner = ast.With(items=st.items[1:], body=st.body, lineno=st.lineno, col_offset=0)
        outer = ast.With(items=st.items[:1], body=[inner], lineno=st.lineno, col_offset=0)
        return self.x_With(outer, fr)
    item = st.items[0]
    cm = self.resolve(self.eval(item.context_expr, fr))
    if isinstance(cm, P.NativeProxy):
        val = self.from_native(cm.obj.__enter__())
        if item.optional_vars is not None:
            self.assign(item.optional_vars, val, fr)
        try:
            self.exec_block(st.body, fr)
        finally:
            cm.obj.__exit__(None, None, None)
        return
    if not isinstance(cm, Obj):
        raise Unsupported("with: context manager of unsupported kind")
    enter = self._getattr(cm, "__enter__")
    exit_ = self._getattr(cm, "__exit__")
    val = self.call(enter, [], {})
    if item.optional_vars is not None:
        self.assign(item.optional_vars, val, fr)
    try:
        self.exec_block(st.body, fr)
    except PyExc as pe:
        swallow = self.call(exit_, [pe.exc.cls, pe.exc, None], {})
        if self.truth(swallow):
            return
        raise
    except (ReturnSig, BreakSig, ContinueSig):
        self.call(exit_, [None, None, None], {})
        raise
    self.call(exit_, [None, None, None], {})


Interp.x_With = x_With


def _match_pattern(self, pat, subject, fr):
    """returns True / False (may fork); binds names"""
    if isinstance(pat, ast.MatchAs):
        if pat.pattern is not None and not _match_pattern(self, pat.pattern, subject, fr):
            return False
        if pat.name is not None:
            self.store_name(pat.name, subject, fr)
        return True
    if isinstance(pat, ast.MatchValue):
        return self.truth(self.equal(subject, self.eval(pat.value, fr)))
    if isinstance(pat, ast.MatchSingleton):
        return self.truth(self.identical(subject, pat.value))
    if isinstance(pat, ast.MatchOr):
        return any(_match_pattern(self, p, subject, fr) for p in pat.patterns)
    if isinstance(pat, ast.MatchClass):
        if pat.patterns or pat.kwd_patterns:
            raise Unsupported("match: class pattern with sub-patterns")
        cls = self.eval(pat.cls, fr)
        return self.truth(self.call(self.builtins["isinstance"], [subject, cls], {}))
    raise Unsupported(f"match pattern {type(pat).__name__}")


def x_Match(self, st, fr):
    subject = self.eval(st.subject, fr)
    for case in st.cases:
        if _match_pattern(self, case.pattern, subject, fr):
            if case.guard is None or self.truth(self.eval(case.guard, fr)):
                self.exec_block(case.body, fr)
                return


Interp.x_Match = x_Match


# comprehension frames are marked so that a walrus inside binds outside
_old_comp = Interp.comp


def comp(self, gens, i, fr, emit):
    if i == 0:
        fr = Frame(dict(), fr.globs, func=fr.func, closure=fr)
        fr.is_comp = True
        return _comp_inner(self, gens, 0, fr, emit)
    return _comp_inner(self, gens, i, fr, emit)


def _comp_inner(self, gens, i, fr, emit):
    if i == len(gens):
        emit(fr)
        return
    g = gens[i]
    for item in self.iterate(self.eval(g.iter, fr)):
        self.assign(g.target, item, fr)
        if all(self.truth(self.eval(c, fr)) for c in g.ifs):
            _comp_inner(self, gens, i + 1, fr, emit)


Interp.comp = comp


# --------------------------------------------------------------------------- helper: wrap python callables
def nf(fn, name="native"):
    return NativeFunc(lambda it, a, k: fn(*a, **k), name)


class PartialObj(P.HeapVal):
    def __init__(self, interp, fn, args, kwargs):
        self.oid = interp.new_oid()
        self.fn, self.args, self.kwargs = fn, list(args), dict(kwargs)


_old_call = Interp.call


def call(self, fn, args, kwargs):
    if isinstance(fn, PartialObj):
        kw = dict(fn.kwargs)
        kw.update(kwargs)
        return self.call(fn.fn, fn.args + list(args), kw)
    return _old_call(self, fn, args, kwargs)


Interp.call = call

_old_truth = Interp.truth


def truth(self, v):
    if isinstance(v, PartialObj):
        return True
    return _old_truth(self, v)


Interp.truth = truth


# --------------------------------------------------------------------------- operator
def _mod_operator(I):
    import ast as _ast

    def binop(op):
        return NativeFunc(lambda it, a, k: I.binop(op, a[0], a[1]), "operator")

    def cmpop(op):
        return NativeFunc(lambda it, a, k: I.cmp(op, a[0], a[1]), "operator")

    def itemgetter(it, a, k):
        keys = list(a)

        def get(it2, b, k2):
            vals = [I.getitem(b[0], key) for key in keys]
            return vals[0] if len(vals) == 1 else PList(I, vals, frozen=True)
        return NativeFunc(get, "itemgetter")

    def attrgetter(it, a, k):
        names = list(a)

        def one(obj, dotted):
            for part in dotted.split("."):
                obj = I._getattr(obj, part)
            return obj

        def get(it2, b, k2):
            vals = [one(b[0], n) for n in names]
            return vals[0] if len(vals) == 1 else PList(I, vals, frozen=True)
        return NativeFunc(get, "attrgetter")

    def methodcaller(it, a, k):
        name, margs, mkw = a[0], list(a[1:]), dict(k)
        return NativeFunc(lambda it2, b, k2: I.call(I._getattr(b[0], name), margs, mkw), "methodcaller")
    g = {
        "is_": NativeFunc(lambda it, a, k: I.identical(a[0], a[1]), "is_"),
        "is_not": NativeFunc(lambda it, a, k: I.not_(I.identical(a[0], a[1])), "is_not"),
        "not_": NativeFunc(lambda it, a, k: not I.truth(a[0]), "not_"),
        "truth": NativeFunc(lambda it, a, k: I.truth(a[0]), "truth"),
        "contains": NativeFunc(lambda it, a, k: I.contains(a[0], a[1]), "contains"),
        "getitem": NativeFunc(lambda it, a, k: I.getitem(a[0], a[1]), "getitem"),
        "add": binop(_ast.Add()), "sub": binop(_ast.Sub()), "mul": binop(_ast.Mult()),
        "eq": cmpop(_ast.Eq()), "ne": cmpop(_ast.NotEq()), "lt": cmpop(_ast.Lt()), "le": cmpop(_ast.LtE()),
        "gt": cmpop(_ast.Gt()), "ge": cmpop(_ast.GtE()),
        "itemgetter": NativeFunc(itemgetter, "itemgetter"), "attrgetter": NativeFunc(attrgetter, "attrgetter"),
        "methodcaller": NativeFunc(methodcaller, "methodcaller"),
    }
    return PModule("operator", g)


STUB_MODULES["operator"] = _mod_operator


# --------------------------------------------------------------------------- functools
def _mod_functools(I):
    def partial(it, a, k):
        return PartialObj(I, a[0], a[1:], k)

    def reduce(it, a, k):
        items = list(I.iterate(a[1]))
        if len(a) > 2:
            acc = a[2]
        else:
            if not items:
                I.raise_("TypeError", "reduce() of empty iterable with no initial value")
            acc = items.pop(0)
        for x in items:
            acc = I.call(a[0], [acc, x], {})
        return acc

    def wraps(it, a, k):
        return NativeFunc(lambda it2, b, k2: b[0], "wraps-deco")
    return PModule("functools", {"partial": NativeFunc(partial, "partial"), "reduce": NativeFunc(reduce, "reduce"),
                                 "wraps": NativeFunc(wraps, "wraps")})


STUB_MODULES["functools"] = _mod_functools


# --------------------------------------------------------------------------- itertools
def _mod_itertools(I):
    def count(it, a, k):
        start = a[0] if a else k.get("start", 0)
        step = a[1] if len(a) > 1 else k.get("step", 1)

        def g():
            n = start
            while True:
                yield n
                n = I.binop(ast.Add(), n, step)
        return GenObj(g())

    def compress(it, a, k):
        def g():
            sel = I.iterate(a[1])
            for d in I.iterate(a[0]):
                try:
                    s = next(sel)
                except StopIteration:
                    return
                if I.truth(s):
                    yield d
        return GenObj(g())

    def chain(it, a, k):
        def g():
            for x in a:
                for y in I.iterate(x):
                    yield y
        return GenObj(g())

    def chain_from_iterable(it, a, k):
        def g():
            for x in I.iterate(a[0]):
                for y in I.iterate(x):
                    yield y
        return GenObj(g())

    def islice(it, a, k):
        import itertools as _it
        nums = [x for x in a[1:]]
        if any(isinstance(x, SInt) for x in nums):
            raise Unsupported("islice with symbolic bounds")
        return GenObj(_it.islice(I.iterate(a[0]), *nums))

    def repeat(it, a, k):
        import itertools as _it
        return GenObj(_it.repeat(*a))

    def product(it, a, k):
        import itertools as _it
        pools = [list(I.iterate(x)) for x in a]
        return GenObj(iter([PList(I, list(t), frozen=True) for t in _it.product(*pools, repeat=k.get("repeat", 1))]))

    def starmap(it, a, k):
        def g():
            for t in I.iterate(a[1]):
                yield I.call(a[0], list(I.iterate(t)), {})
        return GenObj(g())

    def takewhile(it, a, k):
        def g():
            for x in I.iterate(a[1]):
                if not I.truth(I.call(a[0], [x], {})):
                    return
                yield x
        return GenObj(g())

    def filterfalse(it, a, k):
        def g():
            for x in I.iterate(a[1]):
                keep = I.truth(x) if a[0] is None else I.truth(I.call(a[0], [x], {}))
                if not keep:
                    yield x
        return GenObj(g())
    ch = NativeFunc(chain, "chain")
    m = PModule("itertools", {"count": NativeFunc(count, "count"), "compress": NativeFunc(compress, "compress"),
                              "chain": ch, "islice": NativeFunc(islice, "islice"), "repeat": NativeFunc(repeat, "repeat"),
                              "product": NativeFunc(product, "product"), "starmap": NativeFunc(starmap, "starmap"),
                              "takewhile": NativeFunc(takewhile, "takewhile"), "filterfalse": NativeFunc(filterfalse, "filterfalse")})
    ch.attrs = {"from_iterable": NativeFunc(chain_from_iterable, "chain.from_iterable")}
    return m


STUB_MODULES["itertools"] = _mod_itertools

# --------------------------------------------------------------------------- contextlib (interpreted source)
CONTEXTLIB_SRC = '''
class suppress:
    def __init__(self, *exceptions):
        self._exceptions = exceptions

    def __enter__(self):
        return None

    def __exit__(self, exctype, excinst, exctb):
        return (exctype is not None) and issubclass(exctype, self._exceptions)


class nullcontext:
    def __init__(self, enter_result=None):
        self.enter_result = enter_result

    def __enter__(self):
        return self.enter_result

    def __exit__(self, *excinfo):
        return None


class _GeneratorContextManager:
    def __init__(self, func, args, kwds):
        self.gen = func(*args, **kwds)

    def __enter__(self):
        return next(self.gen)

    def __exit__(self, typ, value, traceback):
        if typ is None:
            done = next(self.gen, _SENTINEL)
            if done is not _SENTINEL:
                raise RuntimeError("generator didn't stop")
            return False
        return _throw_into(self.gen, typ, value)


_SENTINEL = object()


def contextmanager(func):
    def helper(*args, **kwds):
        return _GeneratorContextManager(func, args, kwds)
    return helper
'''


def _mod_contextlib(I):
    m = PModule("contextlib", {"__name__": "contextlib"})

    def throw_into(it, a, k):
        gen, typ, value = a
        if not isinstance(gen, GenObj):
            raise Unsupported("contextmanager over a non-generator")
        try:
            gen.pygen.throw(PyExc(value))
        except StopIteration:
            return True                      # the generator handled (suppressed) the exception
        except PyExc as pe:
            if pe.exc is value:
                return False                 # re-raised unchanged: the with statement propagates it
            raise
        I.raise_("RuntimeError", "generator didn't stop after throw()")
    m.globs["_throw_into"] = NativeFunc(throw_into, "_throw_into")
    I.exec_block(ast.parse(CONTEXTLIB_SRC).body, Frame(m.globs, m.globs))
    return m


STUB_MODULES["contextlib"] = _mod_contextlib


# --------------------------------------------------------------------------- attribute access on native funcs (chain.from_iterable)
_old_getattr = Interp._getattr


def _getattr(self, v, name):
    if isinstance(v, NativeFunc) and getattr(v, "attrs", None) and name in v.attrs:
        return v.attrs[name]
    if isinstance(v, FuncObj) and name in ("__qualname__",):
        return v.name
    if isinstance(v, (FuncObj, NativeFunc, BoundMethod, PartialObj)) and name == "__doc__":
        return None
    return _old_getattr(self, v, name)


Interp._getattr = _getattr


# --------------------------------------------------------------------------- builtins: iter(callable, sentinel), format, divmod ...
_old_mk = Interp._mk_builtins


def _mk_builtins(self):
    _old_mk(self)
    I = self
    B = self.builtins
    old_iter = B["iter"]

    def _iter(it, a, k):
        if len(a) == 2:
            fn, sentinel = a

            def g():
                while True:
                    v = I.call(fn, [], {})
                    if I.truth(I.equal(v, sentinel)):
                        return
                    yield v
            return GenObj(g())
        return old_iter.fn(it, a, k)
    B["iter"] = NativeFunc(_iter, "iter")

    def _format(it, a, k):
        spec = a[1] if len(a) > 1 else ""
        if spec != "":
            if isinstance(a[0], (int, float, str)) and isinstance(spec, str):
                return format(a[0], spec)
            raise Unsupported("format() with a format spec on a symbolic value")
        v = a[0]
        if isinstance(v, Obj):
            f = I.class_lookup(v.cls, "__format__")
            if isinstance(f, FuncObj):
                return I.call(f, [v, ""], {})
        return I.to_str(v)
    B["format"] = NativeFunc(_format, "format")

    def _divmod(it, a, k):
        if isinstance(a[0], int) and isinstance(a[1], int):
            return PList(I, list(divmod(a[0], a[1])), frozen=True)
        raise Unsupported("divmod on symbolic values")
    B["divmod"] = NativeFunc(_divmod, "divmod")

    def _round(it, a, k):
        if all(isinstance(x, (int, float)) for x in a):
            return round(*a)
        raise Unsupported("round on symbolic values")
    B["round"] = NativeFunc(_round, "round")
    B["frozenset"].native_ctor = lambda it, a, k: PSet(I, list(I.iterate(a[0])) if a else [])
    B["NotImplemented"] = NotImplemented
    B["Ellipsis"] = Ellipsis
    B["StopIteration"] = B["StopIteration"]


Interp._mk_builtins = _mk_builtins


# --------------------------------------------------------------------------- str helpers on symbolic strings
_old_str_method = Interp.str_method


def str_method(self, v, name):
    if isinstance(v, SStr) and name in ("removesuffix", "removeprefix", "endswith", "startswith"):
        I = self

        def fn(it, a, k):
            arg = a[0]
            if not isinstance(arg, (str, SStr)):
                raise Unsupported(f"str.{name} with non-str argument")
            at = I.str_term(arg)
            if name == "endswith":
                return I.wrapb(z3.SuffixOf(at, v.term))
            if name == "startswith":
                return I.wrapb(z3.PrefixOf(at, v.term))
            n, m = z3.Length(v.term), z3.Length(at)
            if name == "removesuffix":
                return I.wraps(z3.If(z3.And(m > 0, z3.SuffixOf(at, v.term)), z3.SubString(v.term, 0, n - m), v.term))
            return I.wraps(z3.If(z3.And(m > 0, z3.PrefixOf(at, v.term)), z3.SubString(v.term, m, n - m), v.term))
        return NativeFunc(fn, f"str.{name}")
    return _old_str_method(self, v, name)


Interp.str_method = str_method
