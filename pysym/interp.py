"""
pysym: a symbolic executor for the Python subset edgegraph is written in.
Executes the *real* source (parsed with ast from the repository on every run) over a heap
whose references, list lengths, ints, bools and strings may be z3 terms.
"""
import ast
import os
import z3
from .engine import Ctx, Infeasible, BoundHit, Inconclusive

NONE_OID = -1


# --------------------------------------------------------------------------- values
class HeapVal:
    __slots__ = ("oid",)


class Obj(HeapVal):
    __slots__ = ("cls", "fields", "label")

    def __init__(self, interp, cls, label=None):
        self.oid = interp.new_oid()
        self.cls = cls
        self.fields = {}
        self.label = label

    def __repr__(self):
        return self.label or f"<{self.cls.name}#{self.oid}>"


class PList(HeapVal):
    """list or tuple.  sym_n is None => exactly len(elems) items; otherwise elems is
    a capacity-sized buffer and sym_n the z3 Int length (0 <= sym_n <= len(elems))."""
    __slots__ = ("elems", "sym_n", "frozen")

    def __init__(self, interp, elems, sym_n=None, frozen=False):
        self.oid = interp.new_oid()
        self.elems = list(elems)
        self.sym_n = sym_n
        self.frozen = frozen

    def __repr__(self):
        b = "()" if self.frozen else "[]"
        if self.sym_n is None:
            return b[0] + ", ".join(map(repr, self.elems)) + b[1]
        return f"{b[0]}len={self.sym_n}: " + ", ".join(map(repr, self.elems)) + b[1]


class PDict(HeapVal):
    __slots__ = ("entries", "frozen")

    def __init__(self, interp, entries=(), frozen=False):
        self.oid = interp.new_oid()
        self.entries = [list(e) for e in entries]   # [key, value] (insertion ordered)
        self.frozen = frozen


class _LiveEntry(list):
    """[key, value] of an instance's __dict__ view: assigning the value writes through to the instance"""
    __slots__ = ("owner",)

    def __setitem__(self, i, val):
        list.__setitem__(self, i, val)
        if i == 1:
            self.owner.fields[self[0]] = val


class _LiveEntries(list):
    """the entry list of an instance's __dict__ view (``obj.__dict__`` / ``vars(obj)``): insertions and
    deletions write through to the instance's attributes.  (Changes made to the instance AFTER the view was
    taken are not reflected: a fresh view is made by every ``__dict__`` access.)"""
    __slots__ = ("owner",)

    def _wrap(self, e):
        if not isinstance(e[0], str):
            raise Unsupported("non-string key written to an instance __dict__")
        le = _LiveEntry(e)
        le.owner = self.owner
        return le

    def append(self, e):
        list.append(self, self._wrap(e))
        self.owner.fields[e[0]] = e[1]

    def pop(self, i=-1):
        e = list.pop(self, i)
        self.owner.fields.pop(e[0], None)
        return e

    def __delitem__(self, i):
        gone = self[i] if isinstance(i, slice) else [self[i]]
        for e in gone:
            self.owner.fields.pop(e[0], None)
        list.__delitem__(self, i)


def live_dict_view(interp, obj):
    d = PDict(interp)
    ents = _LiveEntries()
    ents.owner = obj
    for k, x in obj.fields.items():
        list.append(ents, ents._wrap([k, x]))
    d.entries = ents
    return d


class PSet(HeapVal):
    __slots__ = ("elems",)

    def __init__(self, interp, elems=()):
        self.oid = interp.new_oid()
        self.elems = []
        for e in elems:
            interp.set_add(self, e)


class ClassObj(HeapVal):
    def __init__(self, interp, name, bases, ns, meta=None, module=None):
        self.oid = interp.new_oid()
        self.name = name
        self.bases = list(bases)
        self.ns = ns
        self.meta = meta
        self.module = module
        self.mro = c3([self] + [], bases)

    def __repr__(self):
        return f"<class {self.name}>"


def c3(head, bases):
    cls = head[0]
    if not bases:
        return [cls]
    seqs = [list(b.mro) for b in bases] + [list(bases)]
    res = [cls]
    while True:
        seqs = [s for s in seqs if s]
        if not seqs:
            return res
        for s in seqs:
            cand = s[0]
            if not any(cand in t[1:] for t in seqs):
                break
        else:
            raise TypeError("inconsistent MRO")
        res.append(cand)
        for s in seqs:
            if s[0] is cand:
                del s[0]


class FuncObj(HeapVal):
    def __init__(self, interp, node, globs, closure, defaults, kwdefaults, name, is_gen):
        self.oid = interp.new_oid()
        self.node = node
        self.globs = globs
        self.closure = closure
        self.defaults = defaults
        self.kwdefaults = kwdefaults
        self.name = name
        self.owner = None
        self.is_gen = is_gen

    def __repr__(self):
        return f"<func {self.name}>"


class BoundMethod:
    def __init__(self, func, self_):
        self.func = func
        self.self_ = self_


class PropertyObj:
    def __init__(self, fget=None, fset=None, fdel=None):
        self.fget, self.fset, self.fdel = fget, fset, fdel


class ClassMethodObj:
    def __init__(self, func):
        self.func = func


class StaticMethodObj:
    def __init__(self, func):
        self.func = func


class SuperObj:
    def __init__(self, start, obj):
        self.start, self.obj = start, obj


class NativeFunc:
    def __init__(self, fn, name="native"):
        self.fn = fn
        self.name = name

    def __repr__(self):
        return f"<native {self.name}>"


class PModule:
    def __init__(self, name, globs=None):
        self.name = name
        self.globs = globs if globs is not None else {}


class GenObj:
    def __init__(self, pygen):
        self.pygen = pygen


class SInt:
    __slots__ = ("term", "bounds")

    def __init__(self, term, bounds=None):
        self.term = term
        self.bounds = bounds      # optional (lo, hi) known concretely (set by the RNG stub)


class SFloatTab:
    """the product of a small-range symbolic int and a concrete float: a table
    (int value -> exact float result computed natively); only int() is supported"""
    __slots__ = ("term", "table")

    def __init__(self, term, table):
        self.term = term
        self.table = table

    def __repr__(self):
        return f"SInt({self.term})"


class SBool:
    __slots__ = ("term",)

    def __init__(self, term):
        self.term = term

    def __repr__(self):
        return f"SBool({self.term})"


class SStr:
    """symbolic string (z3 String term)"""
    __slots__ = ("term",)

    def __init__(self, term):
        self.term = term

    def __repr__(self):
        return f"SStr({self.term})"


class NativeProxy:
    """A real Python object (module, class, function, instance) of the standard
    library that the analysed code only ever uses with concrete arguments
    (re, datetime, os.path ...).  Calls are executed natively."""
    __slots__ = ("obj",)

    def __init__(self, obj):
        self.obj = obj

    def __repr__(self):
        return f"<native-proxy {self.obj!r}>"


class SymRef:
    """symbolic reference: term is a z3 Int equal to the oid of one of cands (None -> -1)"""
    __slots__ = ("term", "cands")

    def __init__(self, term, cands):
        self.term = term
        self.cands = tuple(cands)

    def __repr__(self):
        return f"SymRef({self.term} in {list(self.cands)})"


class UFunc(HeapVal):
    """A user callback modelled as an uninterpreted function of its (reference)
    arguments.  ``fault`` is an optional z3 Int: the invocation with that index
    (0-based) raises ``fault_exc`` instead of returning."""
    def __init__(self, name, arity, ret="bool", fault=None, fault_exc=None, label=None):
        self.name = name
        self.ret = ret
        self.arity = arity
        rs = {"bool": z3.BoolSort(), "int": z3.IntSort(), "str": z3.StringSort()}[ret]
        self.f = z3.Function(name, *([z3.IntSort()] * arity), rs)
        self.calls = 0
        self.fault = fault
        self.fault_exc = fault_exc
        self.label = label or name
        self.oid = None


# control flow
class ReturnSig(Exception):
    def __init__(self, value):
        self.value = value


class BreakSig(Exception):
    pass


class ContinueSig(Exception):
    pass


class PyExc(Exception):
    def __init__(self, exc):
        self.exc = exc   # Obj instance of an exception class

    def __str__(self):
        return f"PyExc({self.exc.cls.name}: {self.exc.fields.get('args')})"


class Unsupported(Inconclusive):
    """Construct outside the implemented subset: the check is inconclusive."""


class Frame:
    def __init__(self, locs, globs, func=None, closure=None, is_class=False):
        self.locs = locs
        self.globs = globs
        self.func = func
        self.closure = closure
        self.is_class = is_class
        self.globals_decl = set()


def oid_of(v):
    return NONE_OID if v is None else v.oid


def is_reflike(v):
    return v is None or isinstance(v, (HeapVal, SymRef))


# --------------------------------------------------------------------------- interpreter
class Interp:
    MAX_DEPTH = 60

    def __init__(self, ctx: Ctx, root=None, extra_sources=None):
        self.ctx = ctx
        self.root = root or os.environ.get("EDGEGRAPH_ROOT", "/repo")
        self.extra_sources = dict(extra_sources or {})   # module name -> source file
        self._oid = 0
        self.modules = {}
        self.depth = 0
        self.resolved = {}
        self.uid_counter = 10 ** 9
        self.builtins = {}
        self.rng_log = []
        self.max_depth_seen = 0
        self._xdispatch = {}
        self._edispatch = {}
        self._mk_builtins()

    def make_ufunc(self, name, arity, ret="bool", fault=None, fault_exc=None, label=None):
        u = UFunc(name, arity, ret, fault, fault_exc, label)
        u.oid = self.new_oid()
        return u

    def new_oid(self):
        self._oid += 1
        return self._oid

    # ---- import cache: snapshot import-time mutable state, restore per path
    def freeze_imports(self):
        import gc
        self.watermark = self._oid
        self._snap = []
        for o in gc.get_objects():
            if isinstance(o, HeapVal) and getattr(o, "oid", 1 << 60) <= self.watermark:
                if isinstance(o, ClassObj):
                    self._snap.append((o, "ns", dict(o.ns)))
                elif isinstance(o, PDict):
                    self._snap.append((o, "entries", [list(e) for e in o.entries]))
                elif isinstance(o, PList):
                    self._snap.append((o, "list", (list(o.elems), o.sym_n)))
                elif isinstance(o, PSet):
                    self._snap.append((o, "set", list(o.elems)))
                elif isinstance(o, Obj):
                    self._snap.append((o, "fields", dict(o.fields)))
        self._modsnap = [(m, dict(m.globs)) for m in self.modules.values() if isinstance(m, PModule)]
        self._modules_snap = dict(self.modules)

    def reset_path(self, ctx):
        self.ctx = ctx
        self._oid = self.watermark
        self.depth = 0
        self.resolved = {}
        self.uid_counter = 10 ** 9
        self.rng_log = []
        self.max_depth_seen = 0
        self.rng_replay = None
        self.hash_apps = []
        for o, kind, val in self._snap:
            if kind == "ns":
                o.ns.clear(); o.ns.update(val)
            elif kind == "entries":
                o.entries = [list(e) for e in val]
            elif kind == "list":
                o.elems = list(val[0]); o.sym_n = val[1]
            elif kind == "set":
                o.elems = list(val)
            elif kind == "fields":
                o.fields.clear(); o.fields.update(val)
        self.modules = dict(self._modules_snap)
        for m, g in self._modsnap:
            m.globs.clear(); m.globs.update(g)

    # ------------------------------------------------------------------ terms
    def ref_term(self, v):
        if isinstance(v, SymRef):
            return v.term
        return z3.IntVal(oid_of(v))

    def int_term(self, v):
        if isinstance(v, SInt):
            return v.term
        if isinstance(v, bool):
            return z3.IntVal(int(v))
        if isinstance(v, int):
            return z3.IntVal(v)
        raise Unsupported(f"int_term({v!r})")

    def bool_term(self, v):
        if isinstance(v, SBool):
            return v.term
        if isinstance(v, bool):
            return z3.BoolVal(v)
        raise Unsupported(f"bool_term({v!r})")

    def wrapb(self, t):
        if isinstance(t, bool):
            return t
        r = z3.Z3_get_bool_value(t.ctx.ref(), t.ast)     # 1: literally true, -1: literally false
        if r == 1:
            return True
        if r == -1:
            return False
        return SBool(t)

    def wrapi(self, t):
        if z3.is_int_value(t):
            return t.as_long()
        return SInt(t)

    def str_term(self, v):
        if isinstance(v, SStr):
            return v.term
        if isinstance(v, str):
            return z3.StringVal(v)
        raise Unsupported(f"str_term({v!r})")

    def wraps(self, t):
        if z3.is_string_value(t):
            return t.as_string()
        return SStr(t)

    def str_concat(self, parts):
        """concatenate python strs / SStr"""
        out = []
        for p in parts:
            if isinstance(p, str):
                if p == "":
                    continue
                if out and isinstance(out[-1], str):
                    out[-1] += p
                    continue
            out.append(p)
        if not out:
            return ""
        if len(out) == 1:
            return out[0]
        if all(isinstance(p, str) for p in out):
            return "".join(out)
        return SStr(z3.Concat(*[self.str_term(p) for p in out]))

    def identical(self, a, b):
        """`a is b` -> bool | SBool"""
        if isinstance(a, SymRef) or isinstance(b, SymRef):
            if not (is_reflike(a) and is_reflike(b)):
                return False
            ta, tb = self.ref_term(a), self.ref_term(b)
            if ta.eq(tb):
                return True
            return self.wrapb(ta == tb)
        if isinstance(a, (SInt, SBool, SStr)) or isinstance(b, (SInt, SBool, SStr)):
            return self.equal(a, b)
        if isinstance(a, (int, str, bool)) and isinstance(b, (int, str, bool)) and type(a) is type(b):
            return a == b      # small-int / interned-str identity is not relied upon by the code analysed
        return a is b

    def equal(self, a, b):
        """`a == b` -> bool | SBool"""
        if isinstance(a, (SInt,)) or isinstance(b, (SInt,)):
            if isinstance(a, (int, SInt)) and isinstance(b, (int, SInt)):
                return self.wrapb(self.int_term(a) == self.int_term(b))
            return False
        if isinstance(a, SBool) or isinstance(b, SBool):
            if isinstance(a, (bool, SBool)) and isinstance(b, (bool, SBool)):
                return self.wrapb(self.bool_term(a) == self.bool_term(b))
            if isinstance(a, (int, SInt)) or isinstance(b, (int, SInt)):
                ta = z3.If(self.bool_term(a), 1, 0) if isinstance(a, (bool, SBool)) else self.int_term(a)
                tb = z3.If(self.bool_term(b), 1, 0) if isinstance(b, (bool, SBool)) else self.int_term(b)
                return self.wrapb(ta == tb)
            return False
        if isinstance(a, SStr) or isinstance(b, SStr):
            if isinstance(a, (str, SStr)) and isinstance(b, (str, SStr)):
                return self.wrapb(self.str_term(a) == self.str_term(b))
            return False
        if isinstance(a, PList) and isinstance(b, PList) and a.frozen == b.frozen:
            if a.sym_n is None and b.sym_n is None:
                if len(a.elems) != len(b.elems):
                    return False
                acc = True
                for x, y in zip(a.elems, b.elems):
                    acc = self.and_(acc, self.equal(x, y))
                    if acc is False:
                        return False
                return acc
            # symbolic length on either side: equal lengths and equal live elements
            na = z3.IntVal(len(a.elems)) if a.sym_n is None else a.sym_n
            nb = z3.IntVal(len(b.elems)) if b.sym_n is None else b.sym_n
            acc = self.wrapb(na == nb)
            for i in range(min(len(a.elems), len(b.elems))):
                acc = self.and_(acc, self.or_(self.wrapb(na <= i), self.equal(a.elems[i], b.elems[i])))
            if len(a.elems) != len(b.elems):
                acc = self.and_(acc, self.wrapb(na <= min(len(a.elems), len(b.elems))))
            return acc
        if isinstance(a, PDict) and isinstance(b, PDict):
            if len(a.entries) != len(b.entries):
                return False
            acc = True
            for k, v in a.entries:
                i = self.dict_find(b, k)
                if i is None:
                    return False
                acc = self.and_(acc, self.equal(v, b.entries[i][1]))
                if acc is False:
                    return False
            return acc
        if isinstance(a, PSet) and isinstance(b, PSet):
            if len(a.elems) != len(b.elems):
                # duplicates cannot occur inside a PSet, so sizes must agree
                return False
            acc = True
            for x in a.elems:
                acc = self.and_(acc, self.contains(b, x))
            return acc
        if isinstance(a, SymRef) or isinstance(b, SymRef):
            # candidates with a user-defined __eq__: concretise (forks) and call it
            def has_eq(v):
                cs = v.cands if isinstance(v, SymRef) else (v,)
                return any(isinstance(c, Obj) and isinstance(self.class_lookup(c.cls, "__eq__"), FuncObj) for c in cs)
            if has_eq(a) or has_eq(b):
                return self.equal(self.resolve(a), self.resolve(b))
            return self.identical(a, b)
        if isinstance(a, Obj):
            eq = self.class_lookup(a.cls, "__eq__")
            if isinstance(eq, FuncObj):
                return self.call(eq, [a, b], {})
            if isinstance(b, Obj):
                eq = self.class_lookup(b.cls, "__eq__")
                if isinstance(eq, FuncObj):
                    return self.call(eq, [b, a], {})      # reflected comparison
            return a is b
        if isinstance(a, HeapVal) or isinstance(b, HeapVal):
            return a is b
        if a is None or b is None:
            return a is b
        return a == b

    def and_(self, a, b):
        if a is True:
            return b
        if b is True:
            return a
        if a is False or b is False:
            return False
        return self.wrapb(z3.And(self.bool_term(a), self.bool_term(b)))

    def or_(self, a, b):
        if a is False:
            return b
        if b is False:
            return a
        if a is True or b is True:
            return True
        return self.wrapb(z3.Or(self.bool_term(a), self.bool_term(b)))

    def not_(self, a):
        if isinstance(a, bool):
            return not a
        return self.wrapb(z3.Not(self.bool_term(a)))

    def ite(self, c, a, b):
        if c is True:
            return a
        if c is False:
            return b
        if a is b:
            return a
        ct = self.bool_term(c)
        if is_reflike(a) and is_reflike(b):
            ta, tb = self.ref_term(a), self.ref_term(b)
            cands = []
            for v in (a, b):
                for x in (v.cands if isinstance(v, SymRef) else (v,)):
                    if not any(x is y for y in cands):
                        cands.append(x)
            t = z3.simplify(z3.If(ct, ta, tb))
            if z3.is_int_value(t):
                o = t.as_long()
                for x in cands:
                    if oid_of(x) == o:
                        return x
            return SymRef(t, cands)
        if isinstance(a, (bool, SBool)) and isinstance(b, (bool, SBool)):
            return self.wrapb(z3.If(ct, self.bool_term(a), self.bool_term(b)))
        if isinstance(a, (int, SInt)) and isinstance(b, (int, SInt)):
            return self.wrapi(z3.If(ct, self.int_term(a), self.int_term(b)))
        if isinstance(a, (str, SStr)) and isinstance(b, (str, SStr)):
            return self.wraps(z3.If(ct, self.str_term(a), self.str_term(b)))
        # cannot merge: fork
        return a if self.ctx.decide(ct) else b

    def truth(self, v):
        if isinstance(v, bool):
            return v
        if isinstance(v, SBool):
            return self.ctx.decide(v.term)
        if v is None:
            return False
        if isinstance(v, int):
            return v != 0
        if isinstance(v, SInt):
            return self.ctx.decide(v.term != 0)
        if isinstance(v, str):
            return len(v) > 0
        if isinstance(v, SStr):
            return self.ctx.decide(z3.Length(v.term) > 0)
        if isinstance(v, UFunc):
            return not getattr(v, "falsy", False)     # a callable object may define __len__ / __bool__
        if isinstance(v, (FuncObj, BoundMethod, NativeFunc, ClassObj)):
            return True
        if isinstance(v, PList):
            if v.sym_n is None:
                return len(v.elems) > 0
            return self.ctx.decide(v.sym_n != 0)
        if isinstance(v, PDict):
            return len(v.entries) > 0
        if isinstance(v, PSet):
            return len(v.elems) > 0
        if isinstance(v, SymRef):
            if not self.ctx.decide(v.term != NONE_OID):
                return False
            needs = any(isinstance(c, Obj) and (self.class_lookup(c.cls, "__bool__") is not None
                                                 or self.class_lookup(c.cls, "__len__") is not None)
                        for c in v.cands)
            if needs:
                return self.truth(self.resolve(v))
            return True
        if isinstance(v, Obj):
            f = self.class_lookup(v.cls, "__bool__")
            if isinstance(f, FuncObj):
                return self.truth(self.call(f, [v], {}))
            f = self.class_lookup(v.cls, "__len__")
            if isinstance(f, (FuncObj, NativeFunc)):
                return self.truth(self.call(f, [v], {}))
            return True
        return True

    def resolve(self, v):
        """Concretise a symbolic reference (forks over its candidates)."""
        if not isinstance(v, SymRef):
            return v
        key = v.term.get_id()
        if key in self.resolved:
            return self.resolved[key]
        cands = list(v.cands)
        for i, c in enumerate(cands):
            if i == len(cands) - 1:
                self.ctx.assume(v.term == oid_of(c))
                self.resolved[key] = c
                return c
            if self.ctx.decide(v.term == oid_of(c)):
                self.resolved[key] = c
                return c
        raise Infeasible()

    def hash_of(self, v):
        v = self.resolve(v)
        if isinstance(v, bool):
            return int(v)
        if isinstance(v, int):
            return hash(v)
        if isinstance(v, SInt):
            return self.wrapi(int_hash_term(v.term))
        if isinstance(v, SBool):
            return self.wrapi(z3.If(v.term, 1, 0))
        if isinstance(v, (str, SStr)):
            return self._inj_hash("s", [self.str_term(v)])
        if v is None:
            return 0x5EED
        if isinstance(v, PList) and v.frozen and v.sym_n is None:
            acc = len(v.elems)
            for e in v.elems:
                acc = self._inj_hash("t", [self.int_term(acc), self.int_term(self.hash_of(e))])
            return acc
        if isinstance(v, PList) or isinstance(v, PDict) or isinstance(v, PSet):
            self.raise_("TypeError", "unhashable type")
        if isinstance(v, Obj):
            if self._cls_unhashable(v.cls):
                self.raise_("TypeError", "unhashable type")
            f = self.class_lookup(v.cls, "__hash__")
            if isinstance(f, FuncObj):
                return self.call(f, [v], {})
            return self.id_of(v) >> 4
        if isinstance(v, HeapVal):
            if getattr(v, "unhashable", False):
                self.raise_("TypeError", "unhashable type")
            return self.id_of(v) >> 4
        raise Unsupported(f"hash({v!r})")

    def _inj_hash(self, kind, args):
        """hash of a tuple step / of a string: a fresh integer per application,
        constrained pairwise so that the mapping is a function *and injective*
        on the applications that occur on this path (hash-mixing collisions of
        real tuples / strings are outside every claim)."""
        apps = self.__dict__.setdefault("hash_apps", [])
        out = self.ctx.fresh_int("hash_" + kind)
        for k2, a2, o2 in apps:
            if k2 != kind:
                self.ctx.assume(out != o2)
                continue
            same = z3.And(*[x == y for x, y in zip(args, a2)])
            self.ctx.assume((out == o2) == same)
        apps.append((kind, args, out))
        return SInt(out)

    # ------------------------------------------------------------------ lists
    def list_len(self, l):
        return len(l.elems) if l.sym_n is None else SInt(l.sym_n)

    def list_contains(self, l, x):
        acc = False
        if l.sym_n is None:
            for e in l.elems:
                acc = self.or_(acc, self.equal(e, x))
            return acc
        for i, e in enumerate(l.elems):
            acc = self.or_(acc, self.and_(self.wrapb(l.sym_n > i), self.equal(e, x)))
        return acc

    def list_append(self, l, x):
        if l.sym_n is None:
            l.elems.append(x)
            return
        K = len(l.elems)
        if self.ctx.decide(l.sym_n >= K):
            raise BoundHit("list capacity")
        l.elems = [self.ite(self.wrapb(l.sym_n == i), x, e) for i, e in enumerate(l.elems)]
        l.sym_n = z3.simplify(l.sym_n + 1)

    def list_remove(self, l, x):
        found = self.list_contains(l, x)
        if not self.truth(found):
            self.raise_("ValueError", "list.remove(x): x not in list")
        if l.sym_n is None:
            # first match: symbolic position
            n = len(l.elems)
            before = []   # before[i] : no match at indices <= i
            nm = True
            for e in l.elems:
                nm = self.and_(nm, self.not_(self.equal(e, x)))
                before.append(nm)
            # concrete length shrinks by one
            new = []
            for i in range(n - 1):
                new.append(self.ite(before[i], l.elems[i], l.elems[i + 1]))
            l.elems = new
            return
        K = len(l.elems)
        nm = True
        before = []
        for i, e in enumerate(l.elems):
            nm = self.and_(nm, self.not_(self.and_(self.wrapb(l.sym_n > i), self.equal(e, x))))
            before.append(nm)
        new = []
        for i in range(K):
            nxt = l.elems[i + 1] if i + 1 < K else l.elems[i]
            new.append(self.ite(before[i], l.elems[i], nxt))
        l.elems = new
        l.sym_n = z3.simplify(l.sym_n - 1)

    def list_getitem(self, l, i):
        if isinstance(i, SInt):
            raise Unsupported("symbolic index")
        n = len(l.elems)
        if l.sym_n is None:
            if i < 0:
                i += n
            if not (0 <= i < n):
                self.raise_("IndexError", "index out of range")
            return l.elems[i]
        if i < 0:
            for k in range(n, -1, -1):
                if k == 0 or self.ctx.decide(l.sym_n == k):
                    if k + i < 0:
                        self.raise_("IndexError", "index out of range")
                    return l.elems[k + i]
        if i >= n or not self.ctx.decide(l.sym_n > i):
            self.raise_("IndexError", "index out of range")
        return l.elems[i]

    def list_iter(self, l):
        i = 0
        while True:
            if l.sym_n is None:
                if i >= len(l.elems):
                    return
            else:
                if i >= len(l.elems) or not self.ctx.decide(l.sym_n > i):
                    return
            yield l.elems[i]
            i += 1

    def concretize_len(self, l):
        """fork on the length of a symbolic-length list and make it concrete"""
        if l.sym_n is None:
            return
        n = len(l.elems)
        for i in range(len(l.elems)):
            if self.ctx.decide(l.sym_n == i):
                n = i
                break
        l.elems = l.elems[:n]
        l.sym_n = None

    def concrete_int(self, v, lo, hi):
        """fork over the values lo..hi of a symbolic int (values outside are clamped to the ends,
        which is what slicing does)"""
        if not isinstance(v, SInt):
            return v
        for c in range(lo, hi):
            if self.ctx.decide(v.term == c):
                return c
        if self.ctx.decide(v.term < lo):
            return lo
        return hi

    def list_copy(self, l, frozen):
        return PList(self, l.elems, l.sym_n, frozen)

    def set_add(self, s, x):
        self.check_hashable(x)
        c = False
        for e in s.elems:
            c = self.or_(c, self.equal(e, x))
        if not self.truth(c):
            s.elems.append(x)

    # ------------------------------------------------------------------ dict (assoc list)
    def check_hashable(self, v):
        """TypeError for keys CPython cannot hash (no hash value is computed: PDict / PSet compare by equality)"""
        if isinstance(v, SymRef):
            if not any(getattr(c, "unhashable", False) or isinstance(c, Obj) and self._cls_unhashable(c.cls)
                       for c in v.cands if c is not None):
                return
            v = self.resolve(v)
        if isinstance(v, PList) and v.frozen:
            if v.sym_n is None:
                for e in v.elems:
                    self.check_hashable(e)
            return
        if isinstance(v, (PList, PDict, PSet)):
            self.raise_("TypeError", "unhashable type")
        if isinstance(v, Obj) and self._cls_unhashable(v.cls) or getattr(v, "unhashable", False):
            self.raise_("TypeError", "unhashable type")

    def _cls_unhashable(self, cls):
        # CPython: a class that defines __eq__ without __hash__ gets __hash__ = None
        for c in cls.mro:
            if "__hash__" in c.ns:
                return c.ns["__hash__"] is None
            if "__eq__" in c.ns:
                return True
        return False

    def dict_find(self, d, k):
        """returns index of matching entry or None (forks on symbolic key equality)"""
        self.check_hashable(k)
        for i, (kk, _) in enumerate(d.entries):
            if self.truth(self.equal(kk, k)):
                return i
        return None

    # ------------------------------------------------------------------ exceptions
    def raise_(self, clsname, msg=""):
        cls = self.builtins[clsname]
        e = Obj(self, cls)
        e.fields["args"] = PList(self, [msg], frozen=True)
        raise PyExc(e)

    # ------------------------------------------------------------------ modules
    def import_module(self, name):
        if name in self.modules:
            return self.modules[name]
        if name.split(".")[0] == "edgegraph" or name in self.extra_sources:
            if name in self.extra_sources:
                path = self.extra_sources[name]
                pkg = False
            else:
                path = os.path.join(self.root, *name.split("."))
                if os.path.isdir(path):
                    path = os.path.join(path, "__init__.py")
                    pkg = True
                else:
                    path += ".py"
                    pkg = False
            src = SOURCE_CACHE.get(path)
            if src is None:
                with open(path) as f:
                    src = ast.parse(f.read(), path)
                SOURCE_CACHE[path] = src
            mod = PModule(name, {"__name__": name, "__file__": path})
            mod.is_pkg = pkg
            self.modules[name] = mod
            # make sure parent package is imported and child is bound
            if "." in name and name not in self.extra_sources:
                parent = self.import_module(name.rsplit(".", 1)[0])
                parent.globs[name.rsplit(".", 1)[1]] = mod
            fr = Frame(mod.globs, mod.globs)
            self.exec_block(src.body, fr)
            return mod
        if name in STUB_MODULES:
            mod = STUB_MODULES[name](self)
            self.modules[name] = mod
            return mod
        if name in NATIVE_MODULES:
            mod = NativeProxy(__import__(name, fromlist=["x"]))
            self.modules[name] = mod
            return mod
        raise Unsupported(f"import {name}")

    # ------------------------------------------------------------------ attribute machinery
    def class_lookup(self, cls, name, after=None):
        mro = cls.mro
        if after is not None:
            mro = mro[mro.index(after) + 1:]
        for c in mro:
            if name in c.ns:
                return c.ns[name]
        return None

    def bind(self, attr, obj, cls):
        if isinstance(attr, FuncObj) or isinstance(attr, NativeFunc) and getattr(attr, "is_method", False):
            return BoundMethod(attr, obj)
        if isinstance(attr, ClassMethodObj):
            return BoundMethod(attr.func, cls)
        if isinstance(attr, StaticMethodObj):
            return attr.func
        return attr

    def getattr(self, v, name, default=KeyError):
        try:
            return self._getattr(v, name)
        except PyExc as e:
            if default is not KeyError and self.exc_isinstance(e.exc, "AttributeError"):
                return default
            raise

    def _getattr(self, v, name):
        v = self.resolve(v)
        if isinstance(v, Obj):
            if name == "__class__":
                return v.cls
            if name == "__dict__":
                return live_dict_view(self, v)
            ca = self.class_lookup(v.cls, name)
            if isinstance(ca, PropertyObj):
                return self.call(ca.fget, [v], {})
            if name in v.fields:
                return v.fields[name]
            if ca is not None or any(name in c.ns for c in v.cls.mro):
                return self.bind(ca, v, v.cls)
            self.raise_("AttributeError", f"{v.cls.name} object has no attribute {name}")
        if isinstance(v, ClassObj):
            if name == "__mro__":
                return PList(self, v.mro, frozen=True)
            if name == "__name__" or name == "__qualname__":
                return v.name
            if name == "__bases__":
                return PList(self, list(v.bases), frozen=True)
            if name == "__base__":
                return v.bases[0] if v.bases else None
            if name == "__module__":
                return v.module
            for c in v.mro:
                if name in c.ns:
                    a = c.ns[name]
                    if isinstance(a, ClassMethodObj):
                        return BoundMethod(a.func, v)
                    if isinstance(a, StaticMethodObj):
                        return a.func
                    return a
            if v.meta is not None:
                ma = self.class_lookup(v.meta, name)
                if ma is not None:
                    return self.bind(ma, v, v.meta)
            self.raise_("AttributeError", f"type {v.name} has no attribute {name}")
        if isinstance(v, SuperObj):
            obj = v.obj
            cls = obj if isinstance(obj, ClassObj) and v.start in (obj.meta.mro if obj.meta else []) else None
            if cls is not None:       # super(Meta, cls) : lookup on metaclass MRO
                a = self.class_lookup(obj.meta, name, after=v.start)
                return self.bind(a, obj, obj.meta)
            a = self.class_lookup(obj.cls, name, after=v.start)
            if isinstance(a, PropertyObj):
                return self.call(a.fget, [obj], {})
            if a is None:
                self.raise_("AttributeError", f"super has no attribute {name}")
            return self.bind(a, obj, obj.cls)
        if isinstance(v, PModule):
            if name in v.globs:
                return v.globs[name]
            # submodule
            try:
                return self.import_module(v.name + "." + name)
            except (Unsupported, FileNotFoundError):
                self.raise_("AttributeError", f"module {v.name} has no attribute {name}")
        if isinstance(v, PList):
            return self.list_method(v, name)
        if isinstance(v, PDict):
            return self.dict_method(v, name)
        if isinstance(v, PSet):
            return self.set_method(v, name)
        if isinstance(v, NativeNS):
            return v.d[name]
        if isinstance(v, NativeProxy):
            try:
                return self.from_native(getattr(v.obj, name))
            except AttributeError:
                self.raise_("AttributeError", f"{v.obj!r} has no attribute {name}")
        if isinstance(v, (str, SStr)):
            return self.str_method(v, name)
        if isinstance(v, GenObj):
            raise Unsupported(f"generator.{name}")
        if isinstance(v, FuncObj):
            if name == "__name__":
                return v.name
        if v is None or isinstance(v, (bool, int, float, SInt, SBool)):
            tn = "NoneType" if v is None else ("bool" if isinstance(v, (bool, SBool)) else ("float" if isinstance(v, float) else "int"))
            self.raise_("AttributeError", f"'{tn}' object has no attribute '{name}'")
        raise Unsupported(f"getattr({v!r}, {name})")

    def setattr(self, v, name, val):
        v = self.resolve(v)
        if isinstance(v, Obj):
            ca = self.class_lookup(v.cls, name)
            if isinstance(ca, PropertyObj):
                if ca.fset is None:
                    self.raise_("AttributeError", f"can't set attribute {name}")
                self.call(ca.fset, [v, val], {})
                return
            v.fields[name] = val
            return
        if isinstance(v, ClassObj):
            v.ns[name] = val
            return
        if isinstance(v, PModule):
            v.globs[name] = val
            return
        raise Unsupported(f"setattr({v!r}, {name})")

    def delattr(self, v, name):
        v = self.resolve(v)
        if isinstance(v, Obj):
            if name not in v.fields:
                self.raise_("AttributeError", name)
            del v.fields[name]
            return
        if isinstance(v, ClassObj):
            # only the class's own namespace (no MRO walk), as type.__delattr__ does
            if name not in v.ns:
                self.raise_("AttributeError", name)
            del v.ns[name]
            return
        if isinstance(v, PModule):
            if name not in v.globs:
                self.raise_("AttributeError", name)
            del v.globs[name]
            return
        raise Unsupported("delattr")

    def hasattr(self, v, name):
        try:
            self._getattr(v, name)
            return True
        except PyExc as e:
            if self.exc_isinstance(e.exc, "AttributeError"):
                return False
            raise

    def native(self, x):
        if isinstance(x, PList) and x.sym_n is None:
            r = [self.native(e) for e in x.elems]
            return tuple(r) if x.frozen else r
        if isinstance(x, PDict):
            return {self.native(k): self.native(v) for k, v in x.entries}
        if isinstance(x, NativeProxy):
            return x.obj
        if isinstance(x, (SInt, SBool, SymRef, SStr)) or (isinstance(x, PList) and x.sym_n is not None):
            raise Unsupported("symbolic value crossing into native code")
        return x

    def from_native(self, r):
        if r is None or isinstance(r, (bool, int, float, str, bytes)):
            return r
        if isinstance(r, (list, tuple)):
            return PList(self, [self.from_native(x) for x in r], frozen=isinstance(r, tuple))
        if isinstance(r, HeapVal):
            return r
        return NativeProxy(r)

    # ------------------------------------------------------------------ container methods
    def list_method(self, l, name):
        I = self

        def guard():
            if l.frozen:
                I.raise_("AttributeError", f"'tuple' object has no attribute '{name}'")

        def concrete(what):
            I.concretize_len(l)
        if name == "append":
            guard()
            return NativeFunc(lambda it, a, k: I.list_append(l, a[0]), "list.append")
        if name == "remove":
            guard()
            return NativeFunc(lambda it, a, k: I.list_remove(l, a[0]), "list.remove")
        if name == "extend":
            guard()

            def ext(it, a, k):
                for x in list(I.iterate(a[0])):
                    I.list_append(l, x)
            return NativeFunc(ext, "list.extend")
        if name == "insert":
            guard()

            def ins(it, a, k):
                concrete("insert")
                if isinstance(a[0], SInt):
                    raise Unsupported("symbolic insert index")
                l.elems.insert(a[0], a[1])
            return NativeFunc(ins, "list.insert")
        if name == "pop":
            guard()

            def pop(it, a, k):
                concrete("pop")
                if not l.elems:
                    I.raise_("IndexError", "pop from empty list")
                if a and isinstance(a[0], SInt):
                    raise Unsupported("symbolic pop index")
                try:
                    return l.elems.pop(*a)
                except IndexError:
                    I.raise_("IndexError", "pop index out of range")
            return NativeFunc(pop, "list.pop")
        if name == "clear":
            guard()

            def clear(it, a, k):
                l.elems = []
                l.sym_n = None
            return NativeFunc(clear, "list.clear")
        if name == "reverse":
            guard()

            def rev(it, a, k):
                concrete("reverse")
                l.elems.reverse()
            return NativeFunc(rev, "list.reverse")
        if name == "sort":
            guard()

            def srt(it, a, k):
                concrete("sort")
                l.elems = I.sorted_list(l.elems, k.get("key"), k.get("reverse", False))
            return NativeFunc(srt, "list.sort")
        if name == "index":
            def index(it, a, k):
                for i, e in enumerate(I.list_iter(l)):
                    if I.truth(I.equal(e, a[0])):
                        return i
                I.raise_("ValueError", "not in list")
            return NativeFunc(index, "list.index")
        if name == "count":
            def count(it, a, k):
                acc = 0
                for i, e in enumerate(l.elems):
                    c = I.equal(e, a[0])
                    if l.sym_n is not None:
                        c = I.and_(I.wrapb(l.sym_n > i), c)
                    acc = I.binop(ast.Add(), acc, I.ite(c, 1, 0))
                return acc
            return NativeFunc(count, "list.count")
        if name == "copy":
            guard()
            return NativeFunc(lambda it, a, k: I.list_copy(l, False))
        if not hasattr(list, name):
            I.raise_("AttributeError", f"'list' object has no attribute '{name}'")
        raise Unsupported(f"list.{name}")

    def sorted_list(self, elems, key=None, reverse=False):
        """stable insertion sort; comparisons on symbolic keys fork"""
        keyed = [(self.call(key, [e], {}) if key is not None else e, e) for e in elems]
        out = []
        for kv, e in keyed:
            pos = len(out)
            # insert after the last element whose key is <= kv (stability)
            while pos > 0:
                pk = out[pos - 1][0]
                gt = self.cmp(ast.Gt() if not reverse else ast.Lt(), pk, kv)
                if self.truth(gt):
                    pos -= 1
                else:
                    break
            out.insert(pos, (kv, e))
        return [e for _, e in out]

    def str_method(self, v, name):
        I = self
        if name == "join":
            def join(it, a, k):
                parts = list(I.iterate(a[0]))
                for p in parts:
                    if not isinstance(p, (str, SStr)):
                        I.raise_("TypeError", "sequence item: expected str instance")
                out = []
                for i, p in enumerate(parts):
                    if i:
                        out.append(v)
                    out.append(p)
                return I.str_concat(out)
            return NativeFunc(join, "str.join")
        if isinstance(v, SStr) and name in ("rstrip", "lstrip", "strip"):
            def strip(it, a, k):
                chars = a[0] if a else " \t\n\r\x0b\x0c"
                if not isinstance(chars, str):
                    raise Unsupported("strip with symbolic chars")
                if chars == "":
                    return v
                cs = z3.Union(*[z3.Re(c) for c in chars]) if len(chars) > 1 else z3.Re(chars)
                cur = v.term
                # s = left ++ core ++ right, left/right in [chars]*, core does not start / end with a char
                if name in ("lstrip", "strip"):
                    left, core = I.ctx.fresh_str("lstrip_l"), I.ctx.fresh_str("lstrip_c")
                    I.ctx.assume(z3.And(cur == z3.Concat(left, core), z3.InRe(left, z3.Star(cs)),
                                        z3.And(*[z3.Not(z3.PrefixOf(z3.StringVal(c), core)) for c in chars])))
                    cur = core
                if name in ("rstrip", "strip"):
                    core, right = I.ctx.fresh_str("rstrip_c"), I.ctx.fresh_str("rstrip_r")
                    I.ctx.assume(z3.And(cur == z3.Concat(core, right), z3.InRe(right, z3.Star(cs)),
                                        z3.And(*[z3.Not(z3.SuffixOf(z3.StringVal(c), core)) for c in chars])))
                    cur = core
                return SStr(cur)
            return NativeFunc(strip, f"str.{name}")
        if isinstance(v, SStr):
            raise Unsupported(f"symbolic str.{name}")
        m = getattr(v, name, None)
        if m is None:
            I.raise_("AttributeError", f"'str' object has no attribute '{name}'")

        def call(it, a, k):
            try:
                return I.from_native(m(*[I.native(x) for x in a], **{kk: I.native(x) for kk, x in k.items()}))
            except (KeyError, IndexError, ValueError) as ex:
                I.raise_(type(ex).__name__, str(ex))
        return NativeFunc(call, f"str.{name}")

    def dict_method(self, d, name):
        I = self

        def guard():
            if d.frozen:
                I.raise_("AttributeError", f"'mappingproxy' object has no attribute '{name}'")
        if name == "items":
            return NativeFunc(lambda it, a, k: PList(I, [PList(I, e, frozen=True) for e in d.entries]))
        if name == "keys":
            return NativeFunc(lambda it, a, k: PList(I, [e[0] for e in d.entries]))
        if name == "values":
            return NativeFunc(lambda it, a, k: PList(I, [e[1] for e in d.entries]))
        if name == "get":
            def get(it, a, k):
                i = I.dict_find(d, a[0])
                return d.entries[i][1] if i is not None else (a[1] if len(a) > 1 else None)
            return NativeFunc(get)
        if name == "copy":
            return NativeFunc(lambda it, a, k: PDict(I, d.entries))
        if name == "update":
            guard()

            def update(it, a, k):
                if a:
                    src = I.resolve(a[0])
                    if isinstance(src, PDict):
                        for kk, vv in list(src.entries):
                            I.dict_setitem(d, kk, vv)
                    else:
                        for pair in list(I.iterate(src)):
                            kk, vv = list(I.iterate(pair))
                            I.dict_setitem(d, kk, vv)
                for kk, vv in k.items():
                    I.dict_setitem(d, kk, vv)
            return NativeFunc(update)
        if name == "setdefault":
            guard()

            def setdefault(it, a, k):
                i = I.dict_find(d, a[0])
                if i is None:
                    d.entries.append([a[0], a[1] if len(a) > 1 else None])
                    return d.entries[-1][1]
                return d.entries[i][1]
            return NativeFunc(setdefault)
        if name == "pop":
            guard()

            def pop(it, a, k):
                i = I.dict_find(d, a[0])
                if i is None:
                    if len(a) > 1:
                        return a[1]
                    I.raise_("KeyError", repr(a[0]))
                return d.entries.pop(i)[1]
            return NativeFunc(pop)
        if name == "clear":
            guard()

            def clear(it, a, k):
                del d.entries[:]          # in place: mapping proxies of this dict share the list
            return NativeFunc(clear)
        if not hasattr(dict, name):
            I.raise_("AttributeError", f"'dict' object has no attribute '{name}'")
        raise Unsupported(f"dict.{name}")

    def dict_setitem(self, d, k, v):
        i = self.dict_find(d, k)
        if i is None:
            d.entries.append([k, v])
        else:
            d.entries[i][1] = v

    def set_method(self, s, name):
        I = self
        if name == "add":
            return NativeFunc(lambda it, a, k: I.set_add(s, a[0]))
        if name == "discard" or name == "remove":
            def rm(it, a, k):
                for i, e in enumerate(s.elems):
                    if I.truth(I.equal(e, a[0])):
                        del s.elems[i]
                        return
                if name == "remove":
                    I.raise_("KeyError", repr(a[0]))
            return NativeFunc(rm)
        if name == "update":
            def upd(it, a, k):
                for x in list(I.iterate(a[0])):
                    I.set_add(s, x)
            return NativeFunc(upd)
        if name == "clear":
            def clr(it, a, k):
                s.elems = []
            return NativeFunc(clr)
        if name == "copy":
            return NativeFunc(lambda it, a, k: PSet(I, s.elems))
        if name == "pop":
            def pop(it, a, k):
                if not s.elems:
                    I.raise_("KeyError", "pop from an empty set")
                return s.elems.pop(0)
            return NativeFunc(pop)
        if not hasattr(set, name):
            I.raise_("AttributeError", f"'set' object has no attribute '{name}'")
        raise Unsupported(f"set.{name}")

    # ------------------------------------------------------------------ iteration
    def iterate(self, v):
        v = self.resolve(v)
        if isinstance(v, PList):
            return self.list_iter(v)
        if isinstance(v, PSet):
            return iter(list(v.elems))
        if isinstance(v, PDict):
            return iter([e[0] for e in v.entries])
        if isinstance(v, GenObj):
            return v.pygen
        if isinstance(v, range):
            return iter(v)
        if isinstance(v, str):
            return iter(v)
        if hasattr(v, "__next__"):
            return v
        if isinstance(v, Obj):
            f = self.class_lookup(v.cls, "__iter__")
            if f is not None:
                return self.iterate(self.call(f, [v], {}))
        if isinstance(v, NativeProxy):
            return (self.from_native(x) for x in v.obj)
        if v is None or isinstance(v, (int, bool, float, SInt, SBool)):
            self.raise_("TypeError", "object is not iterable")
        raise Unsupported(f"iterate({v!r})")

    # ------------------------------------------------------------------ calls
    def exc_isinstance(self, exc, clsname_or_cls):
        cls = self.builtins[clsname_or_cls] if isinstance(clsname_or_cls, str) else clsname_or_cls
        return cls in exc.cls.mro

    def call(self, fn, args, kwargs):
        if isinstance(fn, SymRef):
            fn = self.resolve(fn)
        if isinstance(fn, BoundMethod):
            return self.call(fn.func, [fn.self_] + list(args), kwargs)
        if isinstance(fn, NativeFunc):
            return fn.fn(self, list(args), kwargs)
        if isinstance(fn, FuncObj):
            return self.call_func(fn, args, kwargs)
        if isinstance(fn, ClassObj):
            if fn.meta is not None:
                mc = self.class_lookup(fn.meta, "__call__")
                if mc is not None:
                    return self.call(mc, [fn] + list(args), kwargs)
            return self.type_call(fn, args, kwargs)
        if isinstance(fn, UFunc):
            if len(args) != fn.arity or kwargs:
                self.raise_("TypeError", f"{fn.name}() takes {fn.arity} positional arguments but {len(args)} were given")
            idx = fn.calls
            fn.calls += 1
            if fn.fault is not None and self.ctx.decide(fn.fault == idx):
                raise PyExc(self.call(fn.fault_exc, ["injected fault"], {}))
            t = fn.f(*[self.ref_term(a) for a in args])
            if fn.ret == "bool":
                return self.wrapb(t)
            if fn.ret == "int":
                return self.wrapi(t)
            return self.wraps(t)
        if isinstance(fn, NativeProxy):
            r = fn.obj(*[self.native(a) for a in args], **{k: self.native(v) for k, v in kwargs.items()})
            return self.from_native(r)
        if isinstance(fn, Obj):
            c = self.class_lookup(fn.cls, "__call__")
            if c is not None:
                return self.call(c, [fn] + list(args), kwargs)
        raise Unsupported(f"call({fn!r})")

    def type_call(self, cls, args, kwargs):
        if getattr(cls, "native_ctor", None):
            return cls.native_ctor(self, args, kwargs)
        new = self.class_lookup(cls, "__new__")
        if isinstance(new, StaticMethodObj) and isinstance(new.func, FuncObj) or isinstance(new, FuncObj):
            # a user-defined __new__ (implicitly static)
            obj = self.call(new.func if isinstance(new, StaticMethodObj) else new, [cls] + list(args), kwargs)
            if not (isinstance(obj, Obj) and cls in obj.cls.mro):
                return obj
        else:
            obj = Obj(self, cls)
        init = self.class_lookup(cls, "__init__")
        if init is not None:
            self.call(init, [obj] + list(args), kwargs)
        return obj

    def call_func(self, fn, args, kwargs):
        node = fn.node
        a = node.args
        locs = {}
        params = [p.arg for p in a.posonlyargs + a.args]
        args = list(args)
        if len(args) > len(params) and not a.vararg:
            self.raise_("TypeError", f"{fn.name}() takes {len(params)} positional arguments but {len(args)} were given")
        for p, v in zip(params, args):
            locs[p] = v
        if a.vararg:
            locs[a.vararg.arg] = PList(self, args[len(params):], frozen=True)
        kwargs = dict(kwargs)
        extra = {}
        kwonly = [p.arg for p in a.kwonlyargs]
        for k, v in kwargs.items():
            if k in params or k in kwonly:
                if k in locs:
                    self.raise_("TypeError", f"multiple values for argument {k}")
                locs[k] = v
            elif a.kwarg:
                extra[k] = v
            else:
                self.raise_("TypeError", f"{fn.name}() got an unexpected keyword argument {k}")
        nd = len(fn.defaults)
        for i, p in enumerate(params):
            if p not in locs:
                j = i - (len(params) - nd)
                if j < 0:
                    self.raise_("TypeError", f"{fn.name}() missing required argument {p}")
                locs[p] = fn.defaults[j]
        for p in kwonly:
            if p not in locs:
                if p not in fn.kwdefaults:
                    self.raise_("TypeError", f"{fn.name}() missing keyword-only argument {p}")
                locs[p] = fn.kwdefaults[p]
        if a.kwarg:
            locs[a.kwarg.arg] = PDict(self, [[k, v] for k, v in extra.items()])
        fr = Frame(locs, fn.globs, func=fn, closure=fn.closure)
        modname = fn.globs.get("__name__", "")
        if isinstance(modname, str) and modname.startswith("edgegraph"):
            st = self.ctx.eng.stats
            st.steps += 1
            q = modname + "." + (fn.owner.name + "." if fn.owner is not None else "") + fn.name
            if q not in st.functions:
                st.functions[q] = (fn.globs.get("__file__", ""), node.lineno, getattr(node, "end_lineno", node.lineno))
        if fn.is_gen:
            return GenObj(self.run_gen(fn, fr))
        if isinstance(node, ast.Lambda):
            return self.eval(node.body, fr)
        self.depth += 1
        if self.depth > self.max_depth_seen:
            self.max_depth_seen = self.depth
        if self.depth > self.MAX_DEPTH:
            self.depth -= 1
            raise BoundHit("call depth")
        try:
            self.exec_block(node.body, fr)
        except ReturnSig as r:
            return r.value
        finally:
            self.depth -= 1
        return None

    def run_gen(self, fn, fr):
        # a generator body counts as a frame while it is being resumed; nested
        # ``yield from`` chains therefore count like nested calls
        self.depth += 1
        if self.depth > self.MAX_DEPTH:
            self.depth -= 1
            raise BoundHit("call depth")
        try:
            yield from self.gexec_block(fn.node.body, fr)
        except ReturnSig:
            return
        finally:
            self.depth -= 1

    # ------------------------------------------------------------------ statements
    def exec_block(self, body, fr):
        for st in body:
            self.exec(st, fr)

    def mangle(self, name, fr):
        if name.startswith("__") and not name.endswith("__"):
            f = fr.func
            while f is not None and f.owner is None and f.closure is not None:
                f = f.closure.func
            if f is not None and f.owner is not None:
                return "_" + f.owner.name.lstrip("_") + name
            if fr.is_class:
                return "_" + fr.clsname.lstrip("_") + name
        return name

    def lookup(self, name, fr):
        f = fr
        first = True
        while f is not None:
            if (first or not f.is_class) and name in f.locs and name not in f.globals_decl:
                return f.locs[name]
            first = False
            f = f.closure
        if name in fr.globs:
            return fr.globs[name]
        if name in self.builtins:
            return self.builtins[name]
        self.raise_("NameError", f"name {name} is not defined")

    def store_name(self, name, val, fr):
        if name in fr.globals_decl:
            fr.globs[name] = val
        else:
            fr.locs[name] = val

    def assign(self, tgt, val, fr):
        if isinstance(tgt, ast.Name):
            self.store_name(tgt.id, val, fr)
        elif isinstance(tgt, ast.Attribute):
            self.setattr(self.eval(tgt.value, fr), self.mangle(tgt.attr, fr), val)
        elif isinstance(tgt, ast.Subscript):
            if isinstance(tgt.slice, ast.Slice):
                self.setslice(self.eval(tgt.value, fr), tgt.slice, val, fr)
            else:
                self.setitem(self.eval(tgt.value, fr), self.eval(tgt.slice, fr), val)
        elif isinstance(tgt, (ast.Tuple, ast.List)):
            vals = list(self.iterate(val))
            if len(vals) != len(tgt.elts):
                self.raise_("ValueError", "unpack")
            for t, v in zip(tgt.elts, vals):
                self.assign(t, v, fr)
        else:
            raise Unsupported(f"assign to {ast.dump(tgt)}")

    def setslice(self, c, sl, val, fr):
        c = self.resolve(c)
        if not isinstance(c, PList) or c.frozen:
            self.raise_("TypeError", "object does not support slice assignment")
        lo = self.eval(sl.lower, fr) if sl.lower else None
        hi = self.eval(sl.upper, fr) if sl.upper else None
        if sl.step is not None or isinstance(lo, SInt) or isinstance(hi, SInt):
            raise Unsupported("slice assignment form")
        new = list(self.iterate(val))
        if c.sym_n is None:
            c.elems[lo:hi] = new
            return
        # symbolic length: only l[:k] = [k values] with k <= len on this path
        if lo in (None, 0) and isinstance(hi, int) and hi >= 0:
            # effective slice is [:min(hi, n)]
            if hi <= len(c.elems) and len(new) == hi and self.ctx.decide(c.sym_n >= hi):
                for i, x in enumerate(new):
                    c.elems[i] = x
                return
        self.concretize_len(c)
        c.elems[lo:hi] = new

    def setitem(self, c, k, v):
        c = self.resolve(c)
        if isinstance(c, PDict):
            if c.frozen:
                self.raise_("TypeError", "mappingproxy does not support item assignment")
            self.dict_setitem(c, k, v)
        elif isinstance(c, PList):
            if c.frozen:
                self.raise_("TypeError", "tuple does not support item assignment")
            if isinstance(k, SInt):
                raise Unsupported("symbolic setitem index")
            if c.sym_n is not None:
                if k < 0:
                    raise Unsupported("negative setitem on symbolic-length list")
                if k >= len(c.elems) or not self.ctx.decide(c.sym_n > k):
                    self.raise_("IndexError", "list assignment index out of range")
                c.elems[k] = v
                return
            try:
                c.elems[k] = v
            except IndexError:
                self.raise_("IndexError", "list assignment index out of range")
        elif isinstance(c, Obj):
            f = self.class_lookup(c.cls, "__setitem__")
            self.call(f, [c, k, v], {})
        elif isinstance(c, PSet) or c is None or isinstance(c, (int, bool, str, SInt, SBool, SStr)):
            self.raise_("TypeError", "object does not support item assignment")
        else:
            raise Unsupported("setitem")

    def getitem(self, c, k):
        c = self.resolve(c)
        if isinstance(c, PList):
            return self.list_getitem(c, k)
        if isinstance(c, PDict):
            i = self.dict_find(c, k)
            if i is None:
                self.raise_("KeyError", repr(k))
            return c.entries[i][1]
        if isinstance(c, Obj):
            f = self.class_lookup(c.cls, "__getitem__")
            if f is None:
                self.raise_("TypeError", "not subscriptable")
            return self.call(f, [c, k], {})
        if isinstance(c, str):
            if isinstance(k, SInt):
                raise Unsupported("symbolic str index")
            try:
                return c[k]
            except IndexError:
                self.raise_("IndexError", "string index out of range")
        if isinstance(c, NativeProxy):
            return self.from_native(c.obj[self.native(k)])
        raise Unsupported(f"getitem({c!r})")

    def exec(self, st, fr):
        try:
            m = self._xdispatch[type(st)]
        except KeyError:
            m = getattr(self, "x_" + type(st).__name__, None)
            if m is None:
                raise Unsupported(f"stmt {type(st).__name__} at line {st.lineno}")
            self._xdispatch[type(st)] = m
        return m(st, fr)

    def x_Expr(self, st, fr):
        self.eval(st.value, fr)

    def x_Pass(self, st, fr):
        pass

    def x_Assign(self, st, fr):
        v = self.eval(st.value, fr)
        for t in st.targets:
            self.assign(t, v, fr)

    def x_AnnAssign(self, st, fr):
        if st.value is not None:
            self.assign(st.target, self.eval(st.value, fr), fr)

    def augop(self, op, cur, val):
        """in-place operators: list += iterable and set |= iterable mutate"""
        if isinstance(cur, PList) and not cur.frozen and isinstance(op, ast.Add):
            for x in list(self.iterate(val)):
                self.list_append(cur, x)
            return cur
        if isinstance(cur, PSet) and isinstance(op, ast.BitOr):
            for x in list(self.iterate(val)):
                self.set_add(cur, x)
            return cur
        return self.binop(op, cur, val)

    def x_AugAssign(self, st, fr):
        if isinstance(st.target, ast.Name):
            cur = self.lookup(st.target.id, fr)
            self.assign(st.target, self.augop(st.op, cur, self.eval(st.value, fr)), fr)
        elif isinstance(st.target, ast.Attribute):
            o = self.eval(st.target.value, fr)
            n = self.mangle(st.target.attr, fr)
            self.setattr(o, n, self.augop(st.op, self.getattr(o, n), self.eval(st.value, fr)))
        elif isinstance(st.target, ast.Subscript):
            o = self.eval(st.target.value, fr)
            k = self.eval(st.target.slice, fr)
            self.setitem(o, k, self.augop(st.op, self.getitem(o, k), self.eval(st.value, fr)))
        else:
            raise Unsupported("augassign")

    def x_Return(self, st, fr):
        raise ReturnSig(self.eval(st.value, fr) if st.value is not None else None)

    def x_If(self, st, fr):
        if self.truth(self.eval(st.test, fr)):
            self.exec_block(st.body, fr)
        else:
            self.exec_block(st.orelse, fr)

    def x_For(self, st, fr):
        for item in self.iterate(self.eval(st.iter, fr)):
            self.assign(st.target, item, fr)
            try:
                self.exec_block(st.body, fr)
            except BreakSig:
                break
            except ContinueSig:
                continue
        else:
            self.exec_block(st.orelse, fr)

    def x_While(self, st, fr):
        n = 0
        while self.truth(self.eval(st.test, fr)):
            n += 1
            if n > 10000:
                raise BoundHit("while loop")
            try:
                self.exec_block(st.body, fr)
            except BreakSig:
                break
            except ContinueSig:
                continue
        else:
            self.exec_block(st.orelse, fr)

    def x_Break(self, st, fr):
        raise BreakSig()

    def x_Continue(self, st, fr):
        raise ContinueSig()

    def x_Global(self, st, fr):
        fr.globals_decl.update(st.names)

    def x_Delete(self, st, fr):
        for t in st.targets:
            if isinstance(t, ast.Attribute):
                self.delattr(self.eval(t.value, fr), self.mangle(t.attr, fr))
            elif isinstance(t, ast.Subscript):
                c = self.resolve(self.eval(t.value, fr))
                k = self.eval(t.slice, fr)
                if isinstance(c, PList) and c.sym_n is None and isinstance(k, int):
                    del c.elems[k]
                elif isinstance(c, PDict):
                    i = self.dict_find(c, k)
                    if i is None:
                        self.raise_("KeyError", repr(k))
                    del c.entries[i]
                elif isinstance(c, Obj):
                    self.call(self.class_lookup(c.cls, "__delitem__"), [c, k], {})
                else:
                    raise Unsupported("del subscript")
            elif isinstance(t, ast.Name):
                del fr.locs[t.id]
            else:
                raise Unsupported("del")

    def x_Raise(self, st, fr):
        if st.exc is None:
            raise fr.locs["__active_exc__"]
        e = self.eval(st.exc, fr)
        if isinstance(e, ClassObj):
            e = self.call(e, [], {})
        if st.cause is not None:
            e.fields["__cause__"] = self.eval(st.cause, fr)
        raise PyExc(e)

    def x_Try(self, st, fr):
        try:
            try:
                self.exec_block(st.body, fr)
            except PyExc as pe:
                for h in st.handlers:
                    if h.type is None or self.exc_matches(pe.exc, self.eval(h.type, fr)):
                        if h.name:
                            fr.locs[h.name] = pe.exc
                        old = fr.locs.get("__active_exc__")
                        fr.locs["__active_exc__"] = pe
                        try:
                            self.exec_block(h.body, fr)
                        finally:
                            fr.locs["__active_exc__"] = old
                        break
                else:
                    raise
            else:
                self.exec_block(st.orelse, fr)
        finally:
            self.exec_block(st.finalbody, fr)

    def exc_matches(self, exc, spec):
        if isinstance(spec, PList):
            return any(self.exc_matches(exc, s) for s in spec.elems)
        return spec in exc.cls.mro

    def x_Assert(self, st, fr):
        if not self.truth(self.eval(st.test, fr)):
            self.raise_("AssertionError", "")

    def x_Import(self, st, fr):
        for al in st.names:
            mod = self.import_module(al.name)
            if al.asname:
                self.store_name(al.asname, mod, fr)
            else:
                top = al.name.split(".")[0]
                self.store_name(top, self.import_module(top), fr)

    def x_ImportFrom(self, st, fr):
        if st.module == "__future__":
            return
        name = st.module
        if st.level:
            base = fr.globs["__name__"].split(".")
            if not getattr(self.modules[fr.globs["__name__"]], "is_pkg", False):
                base = base[:-1]
            base = base[: len(base) - (st.level - 1)]
            name = ".".join(base + ([st.module] if st.module else []))
        mod = self.import_module(name)
        for al in st.names:
            if al.name in mod.globs:
                v = mod.globs[al.name]
            elif name in ("typing", "collections.abc", "typing_extensions", "types") and al.name[:1].isupper() \
                    and al.name != "MappingProxyType":
                v = None          # names that only ever appear in annotations
            else:
                try:
                    v = self.import_module(name + "." + al.name)
                except (Unsupported, FileNotFoundError):
                    self.raise_("ImportError", f"cannot import name {al.name} from {name}")
            self.store_name(al.asname or al.name, v, fr)

    def x_FunctionDef(self, st, fr):
        f = self.make_func(st, fr, st.name)
        for d in reversed(st.decorator_list):
            f = self.call(self.eval(d, fr), [f], {})
        self.store_name(st.name, f, fr)

    def make_func(self, node, fr, name):
        a = node.args
        defaults = [self.eval(d, fr) for d in a.defaults]
        kwdefaults = {p.arg: self.eval(d, fr) for p, d in zip(a.kwonlyargs, a.kw_defaults) if d is not None}
        is_gen = (not isinstance(node, ast.Lambda)) and contains_yield(node)
        closure = fr if (fr.func is not None or fr.is_class and fr.closure is not None) else None
        # functions defined in a class body nested in a function close over the enclosing function frame
        if fr.is_class:
            closure = fr.closure
        return FuncObj(self, node, fr.globs, closure, defaults, kwdefaults, name, is_gen)

    def x_ClassDef(self, st, fr):
        bases = [self.eval(b, fr) for b in st.bases]
        meta = None
        for kw in st.keywords:
            if kw.arg == "metaclass":
                meta = self.eval(kw.value, fr)
        if not bases:
            bases = [self.builtins["object"]]
        if meta is None:
            for b in bases:
                if b.meta is not None:
                    meta = b.meta
                    break
        ns = {}
        cfr = Frame(ns, fr.globs, func=None, closure=(fr if fr.func is not None else None), is_class=True)
        cfr.clsname = st.name
        cfr.func = None
        self.exec_block(st.body, cfr)
        cls = ClassObj(self, st.name, bases, ns, meta, fr.globs.get("__name__"))
        for v in ns.values():
            for f in unwrap_funcs(v):
                if f.owner is None:
                    f.owner = cls
        for d in reversed(st.decorator_list):
            cls = self.call(self.eval(d, fr), [cls], {})
        self.store_name(st.name, cls, fr)

    # generator-context statement execution (only control-flow statements are duplicated)
    def gexec_block(self, body, fr):
        for st in body:
            yield from self.gexec(st, fr)

    def gexec(self, st, fr):
        if isinstance(st, ast.Expr) and isinstance(st.value, ast.Yield):
            yield (self.eval(st.value.value, fr) if st.value.value is not None else None)
        elif isinstance(st, ast.Expr) and isinstance(st.value, ast.YieldFrom):
            yield from self.iterate(self.eval(st.value.value, fr))
        elif isinstance(st, ast.If):
            if self.truth(self.eval(st.test, fr)):
                yield from self.gexec_block(st.body, fr)
            else:
                yield from self.gexec_block(st.orelse, fr)
        elif isinstance(st, ast.For):
            for item in self.iterate(self.eval(st.iter, fr)):
                self.assign(st.target, item, fr)
                try:
                    yield from self.gexec_block(st.body, fr)
                except BreakSig:
                    break
                except ContinueSig:
                    continue
            else:
                yield from self.gexec_block(st.orelse, fr)
        elif isinstance(st, ast.While):
            while self.truth(self.eval(st.test, fr)):
                try:
                    yield from self.gexec_block(st.body, fr)
                except BreakSig:
                    break
                except ContinueSig:
                    continue
        elif isinstance(st, ast.Try) and contains_yield(st):
            try:
                try:
                    yield from self.gexec_block(st.body, fr)
                except PyExc as pe:
                    for h in st.handlers:
                        if h.type is None or self.exc_matches(pe.exc, self.eval(h.type, fr)):
                            if h.name:
                                fr.locs[h.name] = pe.exc
                            old = fr.locs.get("__active_exc__")
                            fr.locs["__active_exc__"] = pe
                            try:
                                yield from self.gexec_block(h.body, fr)
                            finally:
                                fr.locs["__active_exc__"] = old
                            break
                    else:
                        raise
                else:
                    yield from self.gexec_block(st.orelse, fr)
            finally:
                for fst in st.finalbody:
                    if contains_yield(fst):
                        raise Unsupported("yield inside finally")
                self.exec_block(st.finalbody, fr)
        elif isinstance(st, ast.With) and contains_yield(st):
            raise Unsupported("yield inside with")
        else:
            if contains_yield(st):
                raise Unsupported(f"yield in {type(st).__name__}")
            self.exec(st, fr)

    # ------------------------------------------------------------------ expressions
    def eval(self, e, fr):
        try:
            m = self._edispatch[type(e)]
        except KeyError:
            m = getattr(self, "e_" + type(e).__name__, None)
            if m is None:
                raise Unsupported(f"expr {type(e).__name__} at line {e.lineno}")
            self._edispatch[type(e)] = m
        return m(e, fr)

    def e_Constant(self, e, fr):
        return e.value

    def e_Name(self, e, fr):
        return self.lookup(e.id, fr)

    def e_Attribute(self, e, fr):
        return self._getattr(self.eval(e.value, fr), self.mangle(e.attr, fr))

    def e_Tuple(self, e, fr):
        return self._display(e, fr, True)

    def e_List(self, e, fr):
        return self._display(e, fr, False)

    def _display(self, e, fr, frozen):
        """[a, *b, c]: a starred symbolic-length list is spliced in without forking on its length"""
        if not any(isinstance(x, ast.Starred) for x in e.elts):
            return PList(self, [self.eval(x, fr) for x in e.elts], frozen=frozen)
        acc = PList(self, [], frozen=frozen)
        for x in e.elts:
            if isinstance(x, ast.Starred):
                v = self.resolve(self.eval(x.value, fr))
                if isinstance(v, PList):
                    part = PList(self, v.elems, v.sym_n, frozen)
                else:
                    part = PList(self, list(self.iterate(v)), frozen=frozen)
            else:
                part = PList(self, [self.eval(x, fr)], frozen=frozen)
            acc = self.binop(ast.Add(), acc, part)
        return acc

    def eval_elts(self, elts, fr):
        out = []
        for x in elts:
            if isinstance(x, ast.Starred):
                out.extend(self.iterate(self.eval(x.value, fr)))
            else:
                out.append(self.eval(x, fr))
        return out

    def e_Set(self, e, fr):
        return PSet(self, self.eval_elts(e.elts, fr))

    def e_Dict(self, e, fr):
        d = PDict(self)
        for k, v in zip(e.keys, e.values):
            if k is None:
                for kk, vv in self.eval(v, fr).entries:
                    self.dict_setitem(d, kk, vv)
            else:
                self.dict_setitem(d, self.eval(k, fr), self.eval(v, fr))
        return d

    def e_Lambda(self, e, fr):
        return self.make_func(e, fr, "<lambda>")

    def e_IfExp(self, e, fr):
        return self.eval(e.body, fr) if self.truth(self.eval(e.test, fr)) else self.eval(e.orelse, fr)

    def e_JoinedStr(self, e, fr):
        parts = []
        for v in e.values:
            if isinstance(v, ast.Constant):
                parts.append(v.value)
            else:
                x = self.eval(v.value, fr)
                if v.format_spec is not None or v.conversion not in (-1, 115):
                    if v.conversion == 114 and v.format_spec is None:
                        parts.append(self.call(self.builtins["repr"], [x], {}))
                        continue
                    raise Unsupported("f-string format spec / conversion")
                parts.append(x if isinstance(x, SStr) else self.to_str(x))
        return self.str_concat(parts)

    def to_str(self, v):
        if isinstance(v, (str, int, bool, float)) or v is None:
            return str(v)
        if isinstance(v, SStr):
            return v
        if isinstance(v, SymRef):
            v = self.resolve(v)
            if v is None:
                return "None"
        if isinstance(v, SInt):
            return self.int_to_sstr(v)
        if isinstance(v, SBool):
            return self.wraps(z3.If(v.term, z3.StringVal("True"), z3.StringVal("False")))
        if isinstance(v, Obj):
            for nm in ("__str__", "__repr__"):
                f = self.class_lookup(v.cls, nm)
                if isinstance(f, FuncObj):
                    return self.call(f, [v], {})
            if self.builtins["BaseException"] in v.cls.mro:
                a = v.fields.get("args")
                if a is not None and len(a.elems) == 1:
                    return self.to_str(a.elems[0])
                return ""
            return f"<{v.cls.module}.{v.cls.name} object at {hex(self.id_of(v))}>"
        if isinstance(v, ClassObj):
            return f"<class '{v.module}.{v.name}'>"
        if isinstance(v, PList) and v.sym_n is None:
            inner = ", ".join(self._repr_str(x) for x in v.elems)
            if v.frozen:
                return "(" + inner + ("," if len(v.elems) == 1 else "") + ")"
            return "[" + inner + "]"
        if isinstance(v, NativeProxy):
            return str(v.obj)
        return f"<{v!r}>"

    def _repr_str(self, x):
        if isinstance(x, str):
            return repr(x)
        r = self.to_str(x)
        if isinstance(r, SStr):
            raise Unsupported("repr of container holding a symbolic string")
        return r

    def id_of(self, v):
        return 0x7F0000000000 + 64 * oid_of(v)

    def e_BoolOp(self, e, fr):
        isand = isinstance(e.op, ast.And)
        v = None
        for i, x in enumerate(e.values):
            v = self.eval(x, fr)
            if i == len(e.values) - 1:
                return v
            t = self.truth(v)
            if isand and not t:
                return v
            if (not isand) and t:
                return v
        return v

    def e_UnaryOp(self, e, fr):
        v = self.eval(e.operand, fr)
        if isinstance(e.op, ast.Not):
            if isinstance(v, (bool, SBool)):
                return self.not_(v)
            return not self.truth(v)
        if isinstance(e.op, ast.USub):
            if isinstance(v, SInt):
                return self.wrapi(-v.term)
            return -v
        raise Unsupported("unaryop")

    def e_BinOp(self, e, fr):
        return self.binop(e.op, self.eval(e.left, fr), self.eval(e.right, fr))

    def binop(self, op, a, b):
        if isinstance(op, ast.Mult) and isinstance(a, SInt) and isinstance(b, float) and a.bounds is not None \
                and a.bounds[1] - a.bounds[0] <= 64:
            return SFloatTab(a.term, [(v, v * b) for v in range(a.bounds[0], a.bounds[1] + 1)])
        if isinstance(op, ast.Mult) and isinstance(b, SInt) and isinstance(a, float) and b.bounds is not None \
                and b.bounds[1] - b.bounds[0] <= 64:
            return SFloatTab(b.term, [(v, a * v) for v in range(b.bounds[0], b.bounds[1] + 1)])
        for x, y, nm in ((a, b, "__mul__"), (b, a, "__rmul__")):
            if isinstance(op, ast.Mult) and isinstance(x, Obj):
                f = self.class_lookup(x.cls, nm)
                if isinstance(f, FuncObj):
                    return self.call(f, [x, y], {})
        if isinstance(a, (SInt,)) or isinstance(b, (SInt,)):
            if isinstance(a, float) or isinstance(b, float):
                raise Unsupported("symbolic int (unbounded) times float")
            ta, tb = self.int_term(a), self.int_term(b)
            if isinstance(op, ast.Add):
                return self.wrapi(ta + tb)
            if isinstance(op, ast.Sub):
                return self.wrapi(ta - tb)
            if isinstance(op, ast.Mult):
                return self.wrapi(ta * tb)
            raise Unsupported("symbolic binop")
        if isinstance(op, ast.Add) and (isinstance(a, SStr) or isinstance(b, SStr)):
            if isinstance(a, (str, SStr)) and isinstance(b, (str, SStr)):
                return self.str_concat([a, b])
            self.raise_("TypeError", "can only concatenate str to str")
        if isinstance(a, (SBool,)) or isinstance(b, (SBool,)):
            raise Unsupported("arithmetic on symbolic bool")
        if isinstance(a, PList) and isinstance(b, PList) and isinstance(op, ast.Add):
            if a.sym_n is None and b.sym_n is None:
                return PList(self, a.elems + b.elems, frozen=a.frozen)
            if a.frozen != b.frozen:
                self.raise_("TypeError", "can only concatenate list to list / tuple to tuple")
            if a.sym_n is None:
                # concrete prefix: the live part of b follows it directly - no fork on b's length
                if b.sym_n is None:
                    return PList(self, a.elems + b.elems, frozen=a.frozen)
                return PList(self, a.elems + b.elems, sym_n=z3.simplify(b.sym_n + len(a.elems)), frozen=a.frozen)
            if b.sym_n is not None:
                b = self.list_copy(b, b.frozen)
                self.concretize_len(b)
            r = PList(self, list(a.elems) + [None] * len(b.elems), sym_n=a.sym_n, frozen=a.frozen)
            for x in b.elems:
                self.list_append(r, x)
            return r
        if isinstance(a, PSet) and isinstance(op, ast.BitOr):
            s = PSet(self, a.elems)
            for x in list(self.iterate(b)):
                self.set_add(s, x)
            return s
        if isinstance(a, PSet) and isinstance(b, PSet) and isinstance(op, (ast.Sub, ast.BitAnd)):
            s = PSet(self)
            for x in a.elems:
                inb = self.truth(self.contains(b, x))
                if inb == isinstance(op, ast.BitAnd):
                    s.elems.append(x)
            return s
        if isinstance(a, bytes) and isinstance(b, bytes) and isinstance(op, ast.Add):
            return a + b
        if isinstance(a, (int, str, float)) and isinstance(b, (int, str, float)):
            import operator
            ops = {ast.Add: operator.add, ast.Sub: operator.sub, ast.Mult: operator.mul, ast.Div: operator.truediv,
                   ast.FloorDiv: operator.floordiv, ast.Mod: operator.mod, ast.Pow: operator.pow}
            try:
                return ops[type(op)](a, b)
            except ZeroDivisionError:
                self.raise_("ZeroDivisionError", "division by zero")
        if isinstance(a, PList) and isinstance(b, int) and isinstance(op, ast.Mult) and a.sym_n is None:
            return PList(self, a.elems * b, frozen=a.frozen)
        if isinstance(a, str) and isinstance(b, (PList, PDict)) and isinstance(op, ast.Mod):
            return a % self.native(b)
        raise Unsupported(f"binop {type(op).__name__} {a!r} {b!r}")

    def e_Compare(self, e, fr):
        left = self.eval(e.left, fr)
        res = True
        for op, rn in zip(e.ops, e.comparators):
            right = self.eval(rn, fr)
            r = self.cmp(op, left, right)
            res = self.and_(res, r) if not (res is True) else r
            if res is False:
                return False
            left = right
        return res

    def cmp(self, op, a, b):
        if isinstance(op, ast.Is):
            return self.identical(a, b)
        if isinstance(op, ast.IsNot):
            return self.not_(self.identical(a, b))
        if isinstance(op, ast.Eq):
            return self.equal(a, b)
        if isinstance(op, ast.NotEq):
            return self.not_(self.equal(a, b))
        if isinstance(op, (ast.In, ast.NotIn)):
            r = self.contains(b, a)
            return r if isinstance(op, ast.In) else self.not_(r)
        if isinstance(a, (int, SInt)) and isinstance(b, (int, SInt)) and (isinstance(a, SInt) or isinstance(b, SInt)):
            ta, tb = self.int_term(a), self.int_term(b)
            t = {ast.Lt: ta < tb, ast.LtE: ta <= tb, ast.Gt: ta > tb, ast.GtE: ta >= tb}[type(op)]
            return self.wrapb(t)
        if isinstance(a, Obj) or isinstance(b, Obj):
            # rich comparison of instances: the left operand's method, else the right operand's reflected one
            name, refl = {ast.Lt: ("__lt__", "__gt__"), ast.LtE: ("__le__", "__ge__"),
                          ast.Gt: ("__gt__", "__lt__"), ast.GtE: ("__ge__", "__le__")}[type(op)]
            if isinstance(a, Obj):
                f = self.class_lookup(a.cls, name)
                if isinstance(f, FuncObj):
                    return self.call(f, [a, b], {})
            if isinstance(b, Obj):
                f = self.class_lookup(b.cls, refl)
                if isinstance(f, FuncObj):
                    return self.call(f, [b, a], {})
            self.raise_("TypeError", "comparison not supported between these instances")
        import operator
        return {ast.Lt: operator.lt, ast.LtE: operator.le, ast.Gt: operator.gt, ast.GtE: operator.ge}[type(op)](a, b)

    def contains(self, c, x):
        c = self.resolve(c)
        if isinstance(c, PList):
            return self.list_contains(c, x)
        if isinstance(c, PSet):
            self.check_hashable(x)
            acc = False
            for e in c.elems:
                acc = self.or_(acc, self.equal(e, x))
            return acc
        if isinstance(c, PDict):
            self.check_hashable(x)
            acc = False
            for k, _ in c.entries:
                acc = self.or_(acc, self.equal(k, x))
            return acc
        if isinstance(c, str):
            return x in c
        if isinstance(c, Obj):
            f = self.class_lookup(c.cls, "__contains__")
            if f is not None:
                return self.call(f, [c, x], {})
            f = self.class_lookup(c.cls, "__iter__")
            if f is not None:
                acc = False
                for e in self.iterate(c):
                    acc = self.or_(acc, self.equal(e, x))
                return acc
        if isinstance(c, GenObj):
            acc = False
            for e in self.iterate(c):
                acc = self.or_(acc, self.equal(e, x))
            return acc
        if isinstance(c, range):
            if isinstance(x, SInt):
                return self.wrapb(z3.Or([x.term == i for i in c])) if len(c) else False
            return x in c
        raise Unsupported(f"in {c!r}")

    def e_Subscript(self, e, fr):
        c = self.eval(e.value, fr)
        if isinstance(e.slice, ast.Slice):
            lo = self.eval(e.slice.lower, fr) if e.slice.lower else None
            hi = self.eval(e.slice.upper, fr) if e.slice.upper else None
            if e.slice.step is not None:
                st = self.eval(e.slice.step, fr)
                if isinstance(c, PList) and c.sym_n is None and isinstance(st, int):
                    return PList(self, c.elems[lo:hi:st], frozen=c.frozen)
                if isinstance(c, str):
                    return c[lo:hi:st]
                raise Unsupported("slice with step")
            if isinstance(lo, SInt) or isinstance(hi, SInt):
                # concretise the bound (forks over the possible positions)
                c = self.resolve(c)
                if not isinstance(c, PList):
                    raise Unsupported("symbolic slice bound on non-list")
                if c.sym_n is not None:
                    c = self.list_copy(c, c.frozen)
                    self.concretize_len(c)
                n = len(c.elems)
                lo = self.concrete_int(lo, -n, n) if isinstance(lo, SInt) else lo
                hi = self.concrete_int(hi, -n, n) if isinstance(hi, SInt) else hi
                return PList(self, c.elems[lo:hi], frozen=c.frozen)
            if isinstance(c, str):
                return c[lo:hi]
            if isinstance(c, SStr):
                if lo is None and isinstance(hi, int) and hi < 0:
                    n = z3.Length(c.term)
                    return self.wraps(z3.SubString(c.term, 0, z3.If(n + hi >= 0, n + hi, 0)))
                raise Unsupported("SStr slice form")
            c = self.resolve(c)
            if isinstance(c, PList):
                if c.sym_n is not None:
                    c = self.list_copy(c, c.frozen)
                    self.concretize_len(c)
                return PList(self, c.elems[lo:hi], frozen=c.frozen)
            raise Unsupported("slice")
        return self.getitem(c, self.eval(e.slice, fr))

    def e_Call(self, e, fr):
        fn = self.eval(e.func, fr)
        args = self.eval_elts(e.args, fr)
        kwargs = {}
        for kw in e.keywords:
            if kw.arg is None:
                d = self.eval(kw.value, fr)
                for k, v in d.entries:
                    kwargs[k] = v
            else:
                kwargs[kw.arg] = self.eval(kw.value, fr)
        if fn is self.builtins["super"] and not args:
            f = fr.func
            while f.owner is None and f.closure is not None:
                f = f.closure.func
            first = fr.locs[fr.func.node.args.args[0].arg]
            return SuperObj(f.owner, first)
        return self.call(fn, args, kwargs)

    def e_ListComp(self, e, fr):
        out = []
        self.comp(e.generators, 0, fr, lambda f2: out.append(self.eval(e.elt, f2)))
        return PList(self, out)

    def e_GeneratorExp(self, e, fr):
        out = []
        self.comp(e.generators, 0, fr, lambda f2: out.append(self.eval(e.elt, f2)))
        # elements are computed eagerly (the element expressions of the code analysed are
        # side-effect free) but the result is a one-shot iterator, like a real generator
        return GenObj(iter(out))

    def e_SetComp(self, e, fr):
        out = []
        self.comp(e.generators, 0, fr, lambda f2: out.append(self.eval(e.elt, f2)))
        return PSet(self, out)

    def e_DictComp(self, e, fr):
        d = PDict(self)
        self.comp(e.generators, 0, fr, lambda f2: self.dict_setitem(d, self.eval(e.key, f2), self.eval(e.value, f2)))
        return d

    def comp(self, gens, i, fr, emit):
        if i == 0:
            fr = Frame(dict(), fr.globs, func=fr.func, closure=fr)
        if i == len(gens):
            emit(fr)
            return
        g = gens[i]
        for item in self.iterate(self.eval(g.iter, fr)):
            self.assign(g.target, item, fr)
            if all(self.truth(self.eval(c, fr)) for c in g.ifs):
                self.comp(gens, i + 1, fr, emit)

    # ------------------------------------------------------------------ builtins
    def _mk_builtins(self):
        B = self.builtins
        I = self
        obj = ClassObj(self, "object", [], {})
        obj.ns["__init__"] = NativeFunc(lambda it, a, k: None, "object.__init__")
        obj.ns["__init__"].is_method = True

        def object_new(it, a, k):
            if not a or not isinstance(a[0], ClassObj):
                I.raise_("TypeError", "object.__new__(X): X is not a type object")
            if getattr(a[0], "native_ctor", None):
                raise Unsupported("object.__new__ of a natively modelled class")
            return Obj(I, a[0])
        obj.ns["__new__"] = StaticMethodObj(NativeFunc(object_new, "object.__new__"))

        def object_getstate(it, a, k):
            # CPython >= 3.11: the instance dictionary itself for a plain instance (slots: not modelled)
            if any("__slots__" in c.ns for c in a[0].cls.mro):
                raise Unsupported("object.__getstate__ with __slots__")
            return live_dict_view(I, a[0])
        obj.ns["__getstate__"] = NativeFunc(object_getstate, "object.__getstate__")
        obj.ns["__getstate__"].is_method = True
        B["object"] = obj
        typ = ClassObj(self, "type", [obj], {})

        def type_dunder_call(it, a, k):
            return I.type_call(a[0], a[1:], k)
        tc = NativeFunc(type_dunder_call, "type.__call__")
        tc.is_method = True
        typ.ns["__call__"] = tc

        def type_ctor(it, a, k):
            if len(a) == 1:
                v = I.resolve(a[0])
                if isinstance(v, Obj):
                    return v.cls
                if isinstance(v, ClassObj):
                    return v.meta or typ
                if v is None:
                    return B["NoneType"]
                if isinstance(v, (bool, SBool)):
                    return B["bool"]
                if isinstance(v, (int, SInt)):
                    return B["int"]
                if isinstance(v, (str, SStr)):
                    return B["str"]
                if isinstance(v, float):
                    return B["float"]
                if isinstance(v, bytes):
                    return B["bytes"]
                if isinstance(v, PList):
                    return B["tuple"] if v.frozen else B["list"]
                if isinstance(v, PDict):
                    return B["dict"]
                if isinstance(v, PSet):
                    return B["set"]
                raise Unsupported(f"type({v!r})")
            raise Unsupported("3-arg type()")
        typ.native_ctor = type_ctor
        B["type"] = typ
        B["NoneType"] = ClassObj(self, "NoneType", [obj], {})
        for name in ("int", "str", "bool", "float", "dict", "list", "tuple", "set", "frozenset", "bytes"):
            B[name] = ClassObj(self, name, [obj], {}, module="builtins")
        obj.module = "builtins"
        typ.module = "builtins"

        def int_ctor(it, a, k):
            if not a:
                return 0
            v = a[0]
            if isinstance(v, (int, float, str)) and not isinstance(v, bool):
                try:
                    return int(v, *a[1:]) if isinstance(v, str) else int(v)
                except ValueError as ex:
                    I.raise_("ValueError", str(ex))
            if isinstance(v, bool):
                return int(v)
            if isinstance(v, SInt):
                return v
            if isinstance(v, SBool):
                return I.wrapi(z3.If(v.term, 1, 0))
            if isinstance(v, SFloatTab):
                t = z3.IntVal(int(v.table[-1][1]))
                for val, fl in reversed(v.table[:-1]):
                    t = z3.If(v.term == val, z3.IntVal(int(fl)), t)
                return I.wrapi(z3.simplify(t))
            if isinstance(v, Obj):
                f = I.class_lookup(v.cls, "__int__")
                if isinstance(f, FuncObj):
                    return I.call(f, [v], {})
            raise Unsupported(f"int({v!r})")
        B["int"].native_ctor = int_ctor

        def bool_ctor(it, a, k):
            if not a:
                return False
            v = a[0]
            if isinstance(v, (SBool, bool)):
                return v
            return I.truth(v)
        B["bool"].native_ctor = bool_ctor

        def str_ctor(it, a, k):
            return I.to_str(a[0]) if a else ""
        B["str"].native_ctor = str_ctor

        def float_ctor(it, a, k):
            if a and isinstance(a[0], (int, float, str)):
                return float(a[0])
            raise Unsupported("float() of symbolic")
        B["float"].native_ctor = float_ctor

        def mkexc(name, base):
            c = ClassObj(self, name, [B[base]], {}, module="builtins")
            B[name] = c
        be = ClassObj(self, "BaseException", [obj], {}, module="builtins")

        def exc_init(it, a, k):
            a[0].fields["args"] = PList(I, a[1:], frozen=True)
        be.ns["__init__"] = NativeFunc(exc_init, "BaseException.__init__")
        be.ns["__init__"].is_method = True
        B["BaseException"] = be
        mkexc("Exception", "BaseException")
        for n, b in [("TypeError", "Exception"), ("ValueError", "Exception"), ("LookupError", "Exception"),
                     ("KeyError", "LookupError"), ("IndexError", "LookupError"), ("AttributeError", "Exception"),
                     ("RuntimeError", "Exception"), ("NotImplementedError", "RuntimeError"),
                     ("RecursionError", "RuntimeError"), ("AssertionError", "Exception"),
                     ("ImportError", "Exception"), ("NameError", "Exception"), ("StopIteration", "Exception"),
                     ("ArithmeticError", "Exception"), ("ZeroDivisionError", "ArithmeticError"),
                     ("OSError", "Exception"), ("FileNotFoundError", "OSError")]:
            mkexc(n, b)

        def nf(name):
            def deco(f):
                B[name] = NativeFunc(f, name)
                return f
            return deco

        B["list"].native_ctor = lambda it, a, k: PList(I, list(I.iterate(a[0])) if a else []) if not (a and isinstance(I.resolve(a[0]), PList)) else I.list_copy(I.resolve(a[0]), False)
        B["tuple"].native_ctor = lambda it, a, k: PList(I, list(I.iterate(a[0])) if a else [], frozen=True) if not (a and isinstance(I.resolve(a[0]), PList)) else I.list_copy(I.resolve(a[0]), True)
        B["set"].native_ctor = lambda it, a, k: PSet(I, list(I.iterate(a[0])) if a else [])

        def dict_ctor(it, a, k):
            d = PDict(I)
            if a:
                src = I.resolve(a[0])
                if isinstance(src, PDict):
                    for kk, vv in src.entries:
                        I.dict_setitem(d, kk, vv)
                else:
                    for pair in I.iterate(src):
                        kk, vv = list(I.iterate(pair))
                        I.dict_setitem(d, kk, vv)
            for kk, vv in k.items():
                I.dict_setitem(d, kk, vv)
            return d
        B["dict"].native_ctor = dict_ctor

        def dict_fromkeys(it, a, k):
            d = PDict(I)
            for x in I.iterate(a[0]):
                I.dict_setitem(d, x, a[1] if len(a) > 1 else None)
            return d
        B["dict"].ns["fromkeys"] = StaticMethodObj(NativeFunc(dict_fromkeys, "dict.fromkeys"))
        B["super"] = NativeFunc(lambda it, a, k: SuperObj(a[0], a[1]), "super")
        B["property"] = ClassObj(self, "property", [obj], {})
        B["property"].native_ctor = lambda it, a, k: PropertyHolder(I, *a)
        B["classmethod"] = NativeFunc(lambda it, a, k: ClassMethodObj(a[0]), "classmethod")
        B["staticmethod"] = NativeFunc(lambda it, a, k: StaticMethodObj(a[0]), "staticmethod")

        @nf("len")
        def _len(it, a, k):
            v = I.resolve(a[0])
            if isinstance(v, PList):
                return I.list_len(v)
            if isinstance(v, PDict):
                return len(v.entries)
            if isinstance(v, PSet):
                return len(v.elems)
            if isinstance(v, str):
                return len(v)
            if isinstance(v, SStr):
                return I.wrapi(z3.Length(v.term))
            if isinstance(v, Obj):
                f = I.class_lookup(v.cls, "__len__")
                if f is None:
                    I.raise_("TypeError", f"object of type '{v.cls.name}' has no len()")
                return I.call(f, [v], {})
            if isinstance(v, NativeProxy):
                return len(v.obj)
            if isinstance(v, range):
                return len(v)
            I.raise_("TypeError", "object has no len()")

        @nf("isinstance")
        def _isinstance(it, a, k):
            v = I.resolve(a[0])
            spec = a[1]
            specs = spec.elems if isinstance(spec, PList) else [spec]
            nat = [sp.obj for sp in specs if isinstance(sp, NativeProxy)]
            specs = [sp for sp in specs if not isinstance(sp, NativeProxy)]
            if isinstance(v, NativeProxy):
                return any(isinstance(v.obj, t) for t in nat)
            if isinstance(v, Obj):
                return any(s in v.cls.mro for s in specs)
            if isinstance(v, PDict):
                return B["dict"] in specs
            if isinstance(v, PList):
                return (B["tuple"] if v.frozen else B["list"]) in specs
            if isinstance(v, ClassObj):
                return any(s in (v.meta or typ).mro for s in specs)
            if v is None:
                return False
            if isinstance(v, bool):
                return B["bool"] in specs or B["int"] in specs
            if isinstance(v, SBool):
                return B["bool"] in specs or B["int"] in specs
            if isinstance(v, (int, SInt)):
                return B["int"] in specs
            if isinstance(v, (str, SStr)):
                return B["str"] in specs
            if isinstance(v, PSet):
                return B["set"] in specs
            if isinstance(v, float):
                return B["float"] in specs
            if isinstance(v, bytes):
                return B["bytes"] in specs
            return False

        @nf("issubclass")
        def _issubclass(it, a, k):
            c = I.resolve(a[0])
            spec = a[1]
            specs = spec.elems if isinstance(spec, PList) else [spec]
            return any(s in c.mro for s in specs)

        @nf("hasattr")
        def _hasattr(it, a, k):
            return I.hasattr(a[0], a[1])

        @nf("getattr")
        def _getattr(it, a, k):
            if len(a) > 2:
                return I.getattr(a[0], a[1], a[2])
            return I._getattr(a[0], a[1])

        @nf("setattr")
        def _setattr(it, a, k):
            I.setattr(a[0], a[1], a[2])

        @nf("delattr")
        def _delattr(it, a, k):
            I.delattr(a[0], a[1])

        @nf("range")
        def _range(it, a, k):
            conc = []
            for x in a:
                if isinstance(x, SInt):
                    # concretise (forks); values outside [-4, 64] are a stated bound
                    val = None
                    for c in range(0, 65):
                        if I.ctx.decide(x.term == c):
                            val = c
                            break
                    if val is None:
                        for c in range(-1, -5, -1):
                            if I.ctx.decide(x.term == c):
                                val = c
                                break
                    if val is None:
                        raise BoundHit("symbolic range() argument outside [-4, 64]")
                    conc.append(val)
                else:
                    conc.append(x)
            return range(*conc)

        @nf("enumerate")
        def _enumerate(it, a, k):
            def g():
                for i, x in enumerate(I.iterate(a[0]), *(a[1:])):
                    yield PList(I, [i, x], frozen=True)
            return GenObj(g())

        @nf("repr")
        def _repr(it, a, k):
            v = I.resolve(a[0])
            if isinstance(v, str):
                return repr(v)
            if isinstance(v, Obj):
                f = I.class_lookup(v.cls, "__repr__")
                if isinstance(f, FuncObj):
                    return I.call(f, [v], {})
                return f"<{v.cls.module}.{v.cls.name} object at {hex(I.id_of(v))}>"
            return I.to_str(v)

        @nf("id")
        def _id(it, a, k):
            v = I.resolve(a[0])
            return I.id_of(v)

        @nf("dir")
        def _dir(it, a, k):
            v = I.resolve(a[0])
            if not isinstance(v, Obj):
                raise Unsupported("dir() of non-instance")
            # instance fields plus the non-dunder names of the class MRO (the
            # dunder names real dir() adds are omitted: see DESIGN 3.4)
            names = set(v.fields)
            for c in v.cls.mro:
                names.update(n for n in c.ns if not (n.startswith("__") and n.endswith("__")))
            return PList(I, sorted(names))

        @nf("sorted")
        def _sorted(it, a, k):
            return PList(I, I.sorted_list(list(I.iterate(a[0])), k.get("key"), k.get("reverse", False)))

        @nf("reversed")
        def _reversed(it, a, k):
            return PList(I, list(reversed(list(I.iterate(a[0])))))

        @nf("any")
        def _any(it, a, k):
            for x in I.iterate(a[0]):
                if I.truth(x):
                    return True
            return False

        @nf("all")
        def _all(it, a, k):
            for x in I.iterate(a[0]):
                if not I.truth(x):
                    return False
            return True

        @nf("sum")
        def _sum(it, a, k):
            acc = a[1] if len(a) > 1 else 0
            for x in I.iterate(a[0]):
                acc = I.binop(ast.Add(), acc, x)
            return acc

        @nf("filter")
        def _filter(it, a, k):
            out = []
            for x in I.iterate(a[1]):
                keep = I.truth(x) if a[0] is None else I.truth(I.call(a[0], [x], {}))
                if keep:
                    out.append(x)
            return GenObj(iter(out))

        @nf("map")
        def _map(it, a, k):
            its = [list(I.iterate(x)) for x in a[1:]]
            return GenObj(iter([I.call(a[0], list(t), {}) for t in zip(*its)]))

        @nf("zip")
        def _zip(it, a, k):
            its = [list(I.iterate(x)) for x in a]
            return PList(I, [PList(I, list(t), frozen=True) for t in zip(*its)])

        @nf("abs")
        def _abs(it, a, k):
            if isinstance(a[0], SInt):
                return I.wrapi(z3.If(a[0].term >= 0, a[0].term, -a[0].term))
            return abs(a[0])

        @nf("callable")
        def _callable(it, a, k):
            v = I.resolve(a[0])
            return isinstance(v, (FuncObj, BoundMethod, NativeFunc, ClassObj, UFunc)) or (
                isinstance(v, Obj) and I.class_lookup(v.cls, "__call__") is not None)

        @nf("iter")
        def _iter(it, a, k):
            return GenObj(iter(I.iterate(a[0])))

        @nf("next")
        def _next(it, a, k):
            g = I.resolve(a[0])
            if not isinstance(g, GenObj):
                raise Unsupported("next() of non-generator")
            try:
                return next(g.pygen)
            except StopIteration:
                if len(a) > 1:
                    return a[1]
                I.raise_("StopIteration", "")

        @nf("chr")
        def _chr(it, a, k):
            return chr(a[0])

        @nf("ord")
        def _ord(it, a, k):
            return ord(a[0])

        @nf("hash")
        def _hash(it, a, k):
            return I.hash_of(a[0])

        @nf("vars")
        def _vars(it, a, k):
            v = I.resolve(a[0])
            if not isinstance(v, Obj):
                raise Unsupported("vars() of a non-instance")
            return live_dict_view(I, v)

        @nf("hex")
        def _hex(it, a, k):
            return hex(a[0])

        @nf("max")
        def _max(it, a, k):
            xs = a if len(a) > 1 else list(I.iterate(a[0]))
            r = xs[0]
            for x in xs[1:]:
                if isinstance(r, SInt) or isinstance(x, SInt):
                    r = I.ite(I.wrapb(I.int_term(x) > I.int_term(r)), x, r)
                else:
                    r = max(r, x)
            return r

        @nf("min")
        def _min(it, a, k):
            xs = a if len(a) > 1 else list(I.iterate(a[0]))
            r = xs[0]
            for x in xs[1:]:
                if isinstance(r, SInt) or isinstance(x, SInt):
                    r = I.ite(I.wrapb(I.int_term(x) < I.int_term(r)), x, r)
                else:
                    r = min(r, x)
            return r

        @nf("print")
        def _print(it, a, k):
            return None
        B["True"], B["False"], B["None"] = True, False, None


class PropertyHolder(PropertyObj):
    pass


def PropertyHolder(interp, fget=None, fset=None, fdel=None):  # noqa: F811
    p = PropertyObj(fget, fset, fdel)
    return p


# make `@x.setter` work: PropertyObj attribute access
def _prop_getattr(self_interp, p, name):
    if name == "setter":
        return NativeFunc(lambda it, a, k: PropertyObj(p.fget, a[0], p.fdel), "property.setter")
    if name == "getter":
        return NativeFunc(lambda it, a, k: PropertyObj(a[0], p.fset, p.fdel), "property.getter")
    if name == "deleter":
        return NativeFunc(lambda it, a, k: PropertyObj(p.fget, p.fset, a[0]), "property.deleter")
    raise Unsupported("property." + name)


_orig_getattr = Interp._getattr


def _getattr_patched(self, v, name):
    if isinstance(v, PropertyObj):
        return _prop_getattr(self, v, name)
    return _orig_getattr(self, v, name)


Interp._getattr = _getattr_patched


class NativeNS:
    def __init__(self, **d):
        self.d = d


def unwrap_funcs(v):
    if isinstance(v, FuncObj):
        yield v
    elif isinstance(v, PropertyObj):
        for f in (v.fget, v.fset, v.fdel):
            if isinstance(f, FuncObj):
                yield f
    elif isinstance(v, (ClassMethodObj, StaticMethodObj)):
        if isinstance(v.func, FuncObj):
            yield v.func


def contains_yield(node):
    for ch in ast.iter_child_nodes(node):
        if isinstance(ch, (ast.Yield, ast.YieldFrom)):
            return True
        if isinstance(ch, (ast.FunctionDef, ast.Lambda, ast.ClassDef)):
            continue
        if contains_yield(ch):
            return True
    return False


SOURCE_CACHE = {}

OBJECT_DIR = [n for n in dir(object())]

NATIVE_MODULES = {"re", "datetime", "os", "subprocess", "shutil", "tempfile", "sys", "math", "string", "pickle", "io"}

INT_HASH_P = 2 ** 61 - 1


def int_hash_term(t):
    """CPython: hash(n) = sign(n) * (|n| mod (2^61-1)); the value -1 is remapped to -2."""
    a = z3.If(t >= 0, t, -t)
    h = z3.If(t >= 0, a % INT_HASH_P, -(a % INT_HASH_P))
    return z3.If(h == -1, z3.IntVal(-2), h)


# tuple / str hashes: an *injective* function of the element hashes / of the
# string (mixing collisions of xxHash / SipHash are outside every claim).
TUPHASH2 = z3.Function("tuplehash2", z3.IntSort(), z3.IntSort(), z3.IntSort())
STRHASH = z3.Function("strhash", z3.StringSort(), z3.IntSort())


# --------------------------------------------------------------------------- stub modules
def _mod_typing(I):
    return PModule("typing", {"TYPE_CHECKING": False, "Any": None})


def _mod_collections_abc(I):
    return PModule("collections.abc", {"Iterator": None, "Callable": None, "Generator": None, "Hashable": None})


def _mod_uuid(I):
    def uuid4(it, a, k):
        I.uid_counter += 1
        return NativeNS(int=I.uid_counter)
    return PModule("uuid", {"uuid4": NativeFunc(uuid4, "uuid4")})


def _mod_types(I):
    def mpt(it, a, k):
        src = a[0]
        if not isinstance(src, PDict):
            I.raise_("TypeError", "mappingproxy() argument must be a mapping")
        # a LIVE read-only view: the proxy shares the entry list of the dict it wraps
        d = PDict(I, [], frozen=True)
        d.entries = src.entries
        return d
    return PModule("types", {"MappingProxyType": NativeFunc(mpt, "MappingProxyType")})


def _mod_collections(I):
    m = PModule("collections", {})
    m.globs["abc"] = I.import_module("collections.abc")
    return m


STUB_MODULES = {
    "typing": _mod_typing,
    "collections.abc": _mod_collections_abc,
    "collections": _mod_collections,
    "uuid": _mod_uuid,
    "types": _mod_types,
}


# ---- collections.deque model (list-backed)
def _install_deque(I):
    m = I.import_module("collections")

    def deque_ctor(it, a, k):
        o = Obj(I, dq)
        o.fields["items"] = PList(I, list(I.iterate(a[0])) if a else [])
        return o
    dq = ClassObj(I, "deque", [I.builtins["object"]], {})
    dq.native_ctor = deque_ctor

    def meth(fn):
        f = NativeFunc(fn)
        f.is_method = True
        return f
    dq.ns["append"] = meth(lambda it, a, k: I.list_append(a[0].fields["items"], a[1]))

    def popleft(it, a, k):
        l = a[0].fields["items"]
        if not l.elems:
            I.raise_("IndexError", "pop from an empty deque")
        return l.elems.pop(0)
    dq.ns["popleft"] = meth(popleft)
    dq.ns["__len__"] = meth(lambda it, a, k: len(a[0].fields["items"].elems))

    def dq_extend(it, a, k):
        for x in list(I.iterate(a[1])):
            I.list_append(a[0].fields["items"], x)
    dq.ns["extend"] = meth(dq_extend)

    def dq_pop(it, a, k):
        l = a[0].fields["items"]
        if not l.elems:
            I.raise_("IndexError", "pop from an empty deque")
        return l.elems.pop()
    dq.ns["pop"] = meth(dq_pop)
    dq.ns["appendleft"] = meth(lambda it, a, k: a[0].fields["items"].elems.insert(0, a[1]))
    dq.ns["clear"] = meth(lambda it, a, k: a[0].fields["items"].elems.clear())
    dq.ns["__iter__"] = meth(lambda it, a, k: GenObj(iter(list(a[0].fields["items"].elems))))
    dq.ns["__contains__"] = meth(lambda it, a, k: I.list_contains(a[0].fields["items"], a[1]))
    m.globs["deque"] = dq


_old_coll = STUB_MODULES["collections"]


def _mod_collections2(I):
    m = _old_coll(I)
    I.modules["collections"] = m
    _install_deque(I)
    return m


STUB_MODULES["collections"] = _mod_collections2


# ---- json.dumps: canonical key-sorted rendering (concrete values rendered natively;
# symbolic ints/strs kept as terms inside a tuple standing for the JSON text)
def _mod_json(I):
    import json as _json

    def dumps(it, a, k):
        d = I.resolve(a[0])
        if not isinstance(d, PDict):
            return _json.dumps(I.native(d), **{kk: I.native(v) for kk, v in k.items()})
        keys = []
        for kk, _ in d.entries:
            if not isinstance(kk, str):
                raise Unsupported("json.dumps with non-str / symbolic keys")
            keys.append(kk)
        items = sorted(d.entries, key=lambda e: e[0]) if I.truth(k.get("sort_keys", False)) else list(d.entries)
        if all(not isinstance(v, (SInt, SBool, SStr, SymRef)) for _, v in items):
            try:
                return _json.dumps({kk: I.native(v) for kk, v in items})
            except TypeError as ex:
                I.raise_("TypeError", str(ex))
        # symbolic values: the JSON text is an injective function of the
        # (key, value) sequence for int / bool / str values.  It is represented
        # by that sequence itself (a tuple), never by a z3 string: equal iff the
        # texts would be equal.
        parts = ["$json"]
        for kk, v in items:
            if not (isinstance(v, (SInt, int, str, bool)) or v is None):
                raise Unsupported("json.dumps of symbolic non-int value")
            parts.append(PList(I, [kk, v], frozen=True))
        return PList(I, parts, frozen=True)
    return PModule("json", {"dumps": NativeFunc(dumps, "json.dumps")})


STUB_MODULES["json"] = _mod_json


def _int_to_sstr(self, v):
    """decimal rendering of a symbolic int as a fresh string constrained to be an
    injective function of the int (z3's unbounded str.from_int is avoided)."""
    f = z3.Function("int2dec", z3.IntSort(), z3.StringSort())
    g = z3.Function("dec2int", z3.StringSort(), z3.IntSort())
    t = f(v.term)
    self.ctx.assume(g(t) == v.term)       # f is injective on the applications that occur
    digits = z3.Union(z3.Re("0"), z3.Concat(z3.Option(z3.Re("-")), z3.Range("1", "9"), z3.Star(z3.Range("0", "9"))))
    self.ctx.assume(z3.InRe(t, digits))   # and its values are decimal numerals
    return SStr(t)


Interp.int_to_sstr = _int_to_sstr


# ---- random: every answer of the generator is a fresh symbolic value within its contract.
# Interp.rng_log records the answers (z3 terms) in call order; with Interp.rng_replay set
# (a list of earlier answers) the stub returns those instead (same RNG stream again).
def _mod_random(I):
    def randint(it, a, k):
        lo, hi = a
        if I.truth(I.cmp(ast.Gt(), lo, hi)):
            I.raise_("ValueError", "empty range for randrange()")
        rp = getattr(I, "rng_replay", None)
        if rp:
            kind, r = rp.pop(0)
            assert kind == "randint"
        else:
            r = I.ctx.fresh_int("randint")
            I.ctx.assume(z3.And(r >= I.int_term(lo), r <= I.int_term(hi)))
        I.rng_log.append(("randint", r))
        b = (lo, hi) if isinstance(lo, int) and isinstance(hi, int) else None
        return SInt(r, b)

    def sample(it, a, k):
        pop = I.resolve(a[0])
        kk = a[1] if len(a) > 1 else k["k"]
        if not isinstance(pop, PList) or pop.sym_n is not None:
            raise Unsupported("random.sample population")
        n = len(pop.elems)
        bad = I.or_(I.cmp(ast.Lt(), kk, 0), I.cmp(ast.Gt(), kk, n))
        if I.truth(bad):
            I.raise_("ValueError", "Sample larger than population or is negative")
        rp = getattr(I, "rng_replay", None)
        if rp:
            kind, idx = rp.pop(0)
            assert kind == "sample"
        else:
            # n pairwise distinct positions; the first k of them are the sample
            idx = []
            for j in range(n):
                t = I.ctx.fresh_int("sample")
                I.ctx.assume(z3.And(t >= 0, t < n))
                for u in idx:
                    I.ctx.assume(t != u)
                idx.append(t)
        out = []
        for t in idx:
            el = pop.elems[n - 1]
            for p in range(n - 2, -1, -1):
                el = I.ite(I.wrapb(t == p), pop.elems[p], el)
            out.append(el)
        I.rng_log.append(("sample", list(idx), kk))
        if isinstance(kk, SInt):
            return PList(I, out, sym_n=kk.term)
        return PList(I, out[:kk])

    def seed(it, a, k):
        return None

    # random.Random(): a private generator.  It is NOT governed by random.seed() nor by the recorded
    # stream of the module-level functions: every draw is a fresh symbolic value, also on a replayed run.
    rcls = ClassObj(I, "Random", [I.builtins["object"]], {}, module="random")

    def fresh_randint(it, a, k):
        saved, I.rng_replay = I.rng_replay, None
        try:
            return randint(it, a[1:], k)
        finally:
            I.rng_replay = saved

    def fresh_sample(it, a, k):
        saved, I.rng_replay = I.rng_replay, None
        try:
            return sample(it, a[1:], k)
        finally:
            I.rng_replay = saved
    for nm, f in (("randint", fresh_randint), ("sample", fresh_sample)):
        nf_ = NativeFunc(f, "Random." + nm)
        nf_.is_method = True
        rcls.ns[nm] = nf_
    return PModule("random", {"randint": NativeFunc(randint, "random.randint"),
                              "sample": NativeFunc(sample, "random.sample"),
                              "seed": NativeFunc(seed, "random.seed"), "Random": rcls})


STUB_MODULES["random"] = _mod_random


# ---- weakref: WeakValueDictionary behaves like a dict as long as the caller keeps its objects alive (every
# harness does; garbage collection is outside pysym - the checks add native replays that drop their references)
def _mod_weakref(I):
    cls = ClassObj(I, "WeakValueDictionary", [I.builtins["object"]], {}, module="weakref")
    cls.native_ctor = lambda it, a, k: I.call(I.builtins["dict"], list(a), k)
    return PModule("weakref", {"WeakValueDictionary": cls})


STUB_MODULES["weakref"] = _mod_weakref

from . import extras  # noqa: E402,F401  (language / stdlib extensions)
