#!/usr/bin/env python3
"""print the rows of DESIGN.md section 11 from evidence/*.json (quick) and a directory of thorough evidence"""
import json, os, sys
V = os.path.dirname(os.path.dirname(os.path.abspath(__file__)))
tdir = sys.argv[1] if len(sys.argv) > 1 else "/tmp/thorough_out/evidence"
print("| check | quick: paths | obligations | solver queries | wall s | thorough: paths | obligations | wall s |")
print("|---|---|---|---|---|---|---|---|")
for i in range(1, 21):
    c = f"C{i:02d}"
    q = json.load(open(os.path.join(V, "evidence", c + ".json")))
    qc = q["coverage"]
    row = [c, qc["states"], qc["obligations"], qc["solver_queries"], round(q["wall_s"])]
    tp = os.path.join(tdir, c + ".json")
    if os.path.exists(tp):
        t = json.load(open(tp))
        ok = t["coverage"].get("exhaustive_within_bounds")
        row += [t["coverage"]["states"], t["coverage"]["obligations"], f"{round(t['wall_s'])}" + ("" if ok else " (not exhausted)")]
    else:
        row += ["-", "-", "-"]
    print("| " + " | ".join(str(x) for x in row) + " |")
