#!/usr/bin/env python3
"""regenerate MANIFEST.json from the check modules present under checks/"""
import json, os, re, sys
V = os.path.dirname(os.path.dirname(os.path.abspath(__file__)))
props = [json.loads(l) for l in open(os.path.join(V, "properties.jsonl"))]
NA = json.load(open(os.path.join(V, "tools", "not_applicable.json"))) if os.path.exists(os.path.join(V, "tools", "not_applicable.json")) else {}
checks, na = [], []
for p in props:
    pid = p["id"]
    path = os.path.join(V, "checks", pid.lower() + ".py")
    src = open(path).read() if os.path.exists(path) else ""
    m = re.search(r'^MANIFEST\s*=\s*(\{.*?^\})', src, re.S | re.M)
    if not src or "CLAIMED = False" in src or not m:
        na.append({"property_id": pid, "reason": NA.get(pid, "check not built yet in this round; nothing is claimed for it")})
        continue
    info = eval(m.group(1))
    checks.append({
        "property_id": pid,
        "quick_cmd": f"bin/check {pid} --tier quick",
        "thorough_cmd": f"bin/check {pid} --tier thorough",
        "evidence_file": f"/verif/evidence/{pid}.json",
        "replay_cmd_template": f"bin/check {pid} --replay {{path}}",
        "engine": "pysym",
        "level_claimed": {"category": "model_checking", "text": info["level"], "design_ref": info.get("design_ref", "DESIGN.md section 5")},
        "level_note": info["note"],
        "technique": info.get("technique", "bounded symbolic execution of the real Python source (pysym) with z3 deciding every branch and obligation; counterexamples replayed on CPython"),
    })
man = {
    "version": 1,
    "setup_cmd": "sh tools/setup.sh",
    "hooks": {"guard": "EDGEGRAPH_VERIF", "enable": "no source hooks are needed: pysym reads /repo's sources and observes private state directly; native replays import /repo as it is",
              "baseline_off_cmd": "cd /repo && /venv/bin/python -m pytest -ra -q -p no:cacheprovider --timeout=900 --continue-on-collection-errors",
              "source_commits": [], "add_only": True},
    "engines": [{"name": "pysym", "path": "pysym/", "serves_properties": [c["property_id"] for c in checks],
                 "kind_free_text": "source-level symbolic executor for the Python subset edgegraph is written in (re-parses /repo on every run), symbolic heap (references, list lengths, ints, bools, strings as z3 terms), z3 decides every branch and obligation; dual-execution harness replays every counterexample and every path witness on CPython"}],
    "checks": checks,
    "not_applicable": na,
    "notes": "Exit codes: 0 all obligations discharged within the stated bounds; 1 natively reproduced violation (VIOLATION line); 2 inconclusive / harness error (never success). See DESIGN.md.",
}
json.dump(man, open(os.path.join(V, "MANIFEST.json"), "w"), indent=1)
print(len(checks), "checks,", len(na), "not applicable")
