#!/bin/sh
# usage: confirm_seed.sh C01 1   -- confirm a sub-agent's mutant in its scratch worktree and store it under /verif/seeded
P=$1; K=$2
WT=/tmp/wt/$P; SRC=/tmp/seedout/$P; OUT=/verif/seeded/$P-m$K
[ -f $SRC/patch$K.diff ] || { echo "$P-m$K: no patch"; exit 1; }
cd $WT && git checkout -q -- . && git status --short | grep -q . && { echo "$P: worktree dirty"; exit 1; }
CLEAN=$(cd $WT && PYTHONPATH=$WT /venv/bin/python $SRC/demo$K.py >/dev/null 2>&1; echo $?)
git -C $WT apply $SRC/patch$K.diff || { echo "$P-m$K: patch does not apply"; exit 1; }
SUITE=$(cd $WT && PYTHONPATH=$WT /venv/bin/python -m pytest -q -p no:cacheprovider 2>&1 | tail -1)
MUT=$(cd $WT && PYTHONPATH=$WT /venv/bin/python $SRC/demo$K.py >/tmp/seedout/$P/demo$K.out 2>&1; echo $?)
git -C $WT checkout -q -- .
echo "$P-m$K clean_demo_exit=$CLEAN mutant_demo_exit=$MUT suite='$SUITE'"
case "$SUITE" in *failed*|*error*) echo "  REJECT (suite fails)"; exit 1;; esac
[ "$CLEAN" = 0 ] && [ "$MUT" != 0 ] || { echo "  REJECT (demo)"; exit 1; }
mkdir -p $OUT && cp $SRC/patch$K.diff $OUT/patch.diff && cp $SRC/demo$K.py $OUT/demo.py && cp $SRC/note$K.txt $OUT/note.txt
python3 - "$P" "$K" "$SUITE" "$OUT" <<'PY'
import json,sys
p,k,suite,out=sys.argv[1:5]
note=open(out+"/note.txt").read()
json.dump({"id":f"{p}-m{k}","breaks_property":p,"needs_to_manifest":note.strip(),
 "confirmed":{"suite_with_patch":suite,"demo_exit_clean_tree":0,"demo_exit_with_patch":"non-zero",
 "how":"tools/confirm_seed.sh: patch applied in a scratch worktree of /repo HEAD, full pytest suite run, demo run with and without the patch"},
 "detected_by":[]},open(out+"/meta.json","w"),indent=1)
PY
