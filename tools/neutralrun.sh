#!/bin/sh
# usage: neutralrun.sh R01-1 C01 [tier] -- run a check against a BEHAVIOUR-PRESERVING refactoring (must exit 0)
N=$1; CHECK=$2; TIER=${3:-quick}
WT=/tmp/wt/N${N#R}
[ -d $WT ] || git -C /repo worktree add -q --detach $WT HEAD
git -C $WT checkout -q -- . && git -C $WT clean -fdq && git -C $WT checkout -q --detach $(git -C /repo rev-parse HEAD) && git -C $WT apply /verif/neutral/$N/patch.diff || exit 3
mkdir -p /tmp/neutralruns/$N
VERIF_OUT_DIR=/tmp/neutralruns/$N EDGEGRAPH_ROOT=$WT /verif/bin/check $CHECK --tier $TIER > /tmp/neutralruns/$N/$CHECK.log 2>&1
RC=$?
git -C $WT checkout -q -- .
echo "$N vs $CHECK ($TIER): exit=$RC  $(grep -c '^VIOLATION' /tmp/neutralruns/$N/$CHECK.log) violation lines; $(grep '^INCONCLUSIVE' /tmp/neutralruns/$N/$CHECK.log | head -2 | cut -c1-300)"
