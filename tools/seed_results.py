#!/usr/bin/env python3
"""collect the results of tools/seedrun.sh runs (/tmp/seedruns/<seed>/<check>.log) into seeded/<seed>/meta.json"""
import glob, json, os, re
V = os.path.dirname(os.path.dirname(os.path.abspath(__file__)))
rows = []
for d in sorted(glob.glob(os.path.join(V, "seeded", "*"))):
    seed = os.path.basename(d)
    mp = os.path.join(d, "meta.json")
    if not os.path.exists(mp):
        continue
    meta = json.load(open(mp))
    res = {}
    for log in sorted(glob.glob(f"/tmp/seedruns/{seed}/C*.log")):
        chk = os.path.basename(log)[:-4]
        txt = open(log).read()
        m = re.findall(r"tier=(\w+) .* exit=(\d)", txt)
        if not m:
            continue
        tier, rc = m[-1]
        res[chk] = {"tier": tier, "exit": int(rc), "violation_lines": txt.count("\nVIOLATION ") + txt.startswith("VIOLATION ")}
    if not res:
        continue    # no logs of this session for that seed: keep what meta.json records
    meta["runs"] = {**meta.get("runs", {}), **res}
    res = meta["runs"]
    meta["detected_by"] = sorted(c for c, r in res.items() if r["exit"] == 1)
    meta["inconclusive_in"] = sorted(c for c, r in res.items() if r["exit"] == 2)
    meta["not_detected_by"] = sorted(c for c, r in res.items() if r["exit"] == 0)
    json.dump(meta, open(mp, "w"), indent=1)
    rows.append((seed, meta["detected_by"], meta["inconclusive_in"], meta["not_detected_by"]))
for r in rows:
    print(r[0], "caught by", r[1], "| exit 2 in", r[2], "| exit 0 in", r[3])
