#!/bin/sh
# Offline set-up: nothing to build.  The checks need python3-vt (z3-solver wheel)
# and /venv/bin/python (edgegraph + dill + pyvis), both pre-installed.
python3-vt -c "import z3; print('z3', z3.get_version_string())" || exit 1
/venv/bin/python -c "import edgegraph, dill; print('edgegraph from', edgegraph.__file__)" || exit 1
mkdir -p evidence replays
exit 0
