#!/bin/sh
# run every check's quick (or given) tier in turn; summary on stdout
TIER=${1:-quick}
cd /verif
for i in $(seq -w 1 20); do
  S=$(date +%s)
  bin/check C$i --tier $TIER > /tmp/sweep_C$i.log 2>&1
  RC=$?
  echo "C$i exit=$RC $(( $(date +%s) - S ))s $(tail -1 /tmp/sweep_C$i.log | cut -c1-160)"
done
