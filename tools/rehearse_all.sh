#!/bin/sh
# run every seeded change against the check(s) designated for it (seeded/<id>/targets, default: its own property)
cd /verif
for d in seeded/*/; do
  S=$(basename $d)
  P=${S%%-*}
  T=$(cat $d/targets 2>/dev/null || echo $P)
  for C in $T; do
    tools/seedrun.sh $S $C quick
  done
done
python3 tools/seed_results.py
