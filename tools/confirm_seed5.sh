#!/bin/sh
# usage: confirm_seed5.sh C03 8   -- batch 5: sub-agent worktree /tmp/agents/<P>-m<N> (change left applied, deliverables in .out/), stored as <P>-m<N>
P=$1; N=$2
WT=/tmp/agents/$P-m$N; SRC=$WT/.out; OUT=/verif/seeded/$P-m$N
[ -f $SRC/patch.diff ] || { echo "$P-m$N: no patch"; exit 1; }
cp -r $SRC /tmp/agents/out_$P && SRC=/tmp/agents/out_$P
cd $WT && git checkout -q -- . && git stash list | grep -q . && git stash drop -q
git -C $WT status --short | grep -v '^?? .out' | grep -q . && { echo "$P: worktree dirty"; git -C $WT status --short; exit 1; }
CLEAN=$(cd $WT && PYTHONPATH=$WT timeout 300 /venv/bin/python $SRC/demo.py >/dev/null 2>&1; echo $?)
git -C $WT apply $SRC/patch.diff || { echo "$P-m$N: patch does not apply"; exit 1; }
SUITE=$(cd $WT && PYTHONPATH=$WT /venv/bin/python -m pytest -q -p no:cacheprovider 2>&1 | tail -1)
MUT=$(cd $WT && PYTHONPATH=$WT timeout 300 /venv/bin/python $SRC/demo.py >$SRC/demo.out 2>&1; echo $?)
git -C $WT checkout -q -- .
echo "$P-m$N clean_demo_exit=$CLEAN mutant_demo_exit=$MUT suite='$SUITE'"
case "$SUITE" in *failed*|*error*) echo "  REJECT (suite fails)"; exit 1;; esac
[ "$CLEAN" = 0 ] && [ "$MUT" != 0 ] || { echo "  REJECT (demo)"; exit 1; }
mkdir -p $OUT && cp $SRC/patch.diff $OUT/patch.diff && cp $SRC/demo.py $OUT/demo.py && cp $SRC/note.txt $OUT/note.txt
python3 - "$P" "$N" "$SUITE" "$OUT" <<'PY'
import json,sys
p,k,suite,out=sys.argv[1:5]
note=open(out+"/note.txt").read()
json.dump({"id":f"{p}-m{k}","breaks_property":p,"needs_to_manifest":note.strip(),
 "confirmed":{"suite_with_patch":suite,"demo_exit_clean_tree":0,"demo_exit_with_patch":"non-zero",
 "how":"tools/confirm_seed5.sh: patch applied in a scratch worktree of /repo HEAD, full pytest suite run, demo run with and without the patch"},
 "detected_by":[]},open(out+"/meta.json","w"),indent=1)
PY
