#!/bin/sh
# usage: seedrun.sh C01-m1 C01 [quick|thorough]  -- run a check against a seeded mutant (scratch worktree, /repo untouched)
SEED=$1; CHECK=$2; TIER=${3:-quick}
P=${SEED%%-*}
WT=/tmp/wt/$P
[ -d $WT ] || git -C /repo worktree add -q --detach $WT HEAD
git -C $WT checkout -q -- . && git -C $WT clean -fdq && git -C $WT checkout -q --detach $(git -C /repo rev-parse HEAD) && git -C $WT apply /verif/seeded/$SEED/patch.diff || exit 3
mkdir -p /tmp/seedruns/$SEED
VERIF_OUT_DIR=/tmp/seedruns/$SEED EDGEGRAPH_ROOT=$WT /verif/bin/check $CHECK --tier $TIER > /tmp/seedruns/$SEED/$CHECK.log 2>&1
RC=$?
git -C $WT checkout -q -- .
echo "$SEED vs $CHECK ($TIER): exit=$RC  $(grep -c '^VIOLATION' /tmp/seedruns/$SEED/$CHECK.log) violation lines; $(grep '^INCONCLUSIVE' /tmp/seedruns/$SEED/$CHECK.log | head -2 | cut -c1-300)"
exit $RC
