"""
C19  A universe and its laws always point at each other, after any (re)assignments.
"""
ID = "C19"

MANIFEST = {
    "level": "Bounded model checking by symbolic execution of the real Universe.laws / UniverseLaws.applies_to setters "
             "and Universe.__init__: (IND) one symbolic assignment or construction from an arbitrary binding state "
             "satisfying 'u.laws is L <=> L.applies_to is u' (all bindings and arguments, including None and law sets "
             "in use elsewhere, are SMT variables) - hence histories of any length over the pool; (BMC) all histories "
             "of depth 3/4 from freshly constructed universes. Every step must succeed, establish the requested "
             "binding and preserve the invariant. A separate configuration proves that the five rule attributes read "
             "back their constructor arguments (symbolic bools / a whitelist dict, also after the caller edits the outer or an inner dictionary it passed) and reject assignment.",
    "note": "Bounds: 2 (quick) / 3 (thorough) universes and one law set more than universes (+1 universe and law set "
            "created by a step). Law sets constructed with applies_to= are outside the statement (only assignments and "
            "universe constructions are). Trusted: pysym (validated per path on CPython), z3.",
    "design_ref": "DESIGN.md 5 (C19)",
}

FAMILIES = ["set_laws", "set_applies_to", "ctor"]
BOUNDS = {"quick": {"universes": 2, "law_sets": 3, "bmc_depth": 3}, "thorough": {"universes": 3, "law_sets": 4, "bmc_depth": 4}}
TIME_BUDGET = {"quick": 300, "thorough": 1200}
STUBS = ["types.MappingProxyType -> read-only view of a dict", "uuid.uuid4 -> fresh distinct integer"]
ASSUMPTIONS = ["pool bound on universes / law sets before the step", "UniverseLaws(applies_to=...) is not part of the quantified histories"]
EXPLANATION = "inductive step + bounded histories over the two mutually recursive setters"


def configs(tier):
    nu = 2 if tier == "quick" else 3
    out = [{"mode": "ind", "family": f, "nu": nu} for f in FAMILIES]
    out.append({"mode": "bmc", "depth": 3 if tier == "quick" else 4, "nu": 2})
    out.append({"mode": "rules"})
    return out


def required_markers(tier):
    return ["ind:" + f for f in FAMILIES] + ["bmc:step", "rules"]


PROG = '''
from edgegraph.structure import Universe
raised = None
r = None
bound_ok = True
try:
    if kind == "set_laws":
        u.laws = X
        bound_ok = u.laws is X
    elif kind == "set_applies_to":
        L.applies_to = Y
        bound_ok = L.applies_to is Y
    else:
        r = Universe(laws=X)
        if X is None:
            bound_ok = r.laws is not None
        else:
            bound_ok = r.laws is X
except Exception as exc:
    raised = type(exc).__name__
no_exc = raised is None
'''

PROG_RULES = '''
from edgegraph.structure import Vertex, DirectedEdge, UnDirectedEdge
from edgegraph.structure.universe import UniverseLaws
if with_wl == 1:
    wl = {Vertex: {Vertex: DirectedEdge}}
    want = {Vertex: {Vertex: DirectedEdge}}
elif with_wl == 2:
    wl = {}
    want = {}
else:
    wl = None
    want = None
L = UniverseLaws(edge_whitelist=wl, mixed_links=b1, cycles=b2, multipath=b3, multiverse=b4)
def view():
    if L.edge_whitelist is None:
        return None
    return {k: dict(v) for k, v in L.edge_whitelist.items()}
read_ok = (L.mixed_links is b1) and (L.cycles is b2) and (L.multipath is b3) and (L.multiverse is b4)
read_ok = read_ok and (view() == want)
# "cannot be changed afterwards": not through the caller's own dictionary either
if wl is not None:
    if with_wl == 1:
        # ... neither through an inner dictionary the caller still holds
        wl[Vertex][Vertex] = UnDirectedEdge
        read_ok = read_ok and (view() == want)
    wl[Vertex] = {Vertex: UnDirectedEdge}
    read_ok = read_ok and (view() == want)
rejected = 0
for name in ("edge_whitelist", "mixed_links", "cycles", "multipath", "multiverse"):
    try:
        setattr(L, name, None)
    except AttributeError:
        rejected = rejected + 1
write_ok = rejected == 5
still_ok = (L.mixed_links is b1) and (L.cycles is b2) and (L.multipath is b3) and (L.multiverse is b4)
'''


def inv19(B, unis, laws):
    acc = []
    for u in unis:
        for L in laws:
            acc.append(B.iff(B.is_(B.get_field(u, "_laws"), L), B.is_(B.get_field(L, "_applies_to"), u)))
    return B.and_(*acc)


def do_step(B, fam, unis, laws, tag):
    env = {"kind": fam, "u": None, "X": None, "L": None, "Y": None}
    if fam == "set_laws":
        env["u"] = B.ref(tag + "u", unis)
        env["X"] = B.ref(tag + "X", laws, allow_none=True)
    elif fam == "set_applies_to":
        env["L"] = B.ref(tag + "L", laws)
        env["Y"] = B.ref(tag + "Y", unis, allow_none=True)
    else:
        env["X"] = B.ref(tag + "X", laws, allow_none=True)
    return B.run(PROG, env)


def collect_new(B, out, unis, laws, tag):
    nu = B.adopt(out["r"], tag + "U")
    nl = []
    for u in nu:
        L = B.get_field(u, "_laws")
        nl = nl + B.adopt(L, tag + "L")
    return unis + nu, laws + nl


def scenario(B, p):
    if p["mode"] == "rules":
        env = {"with_wl": B.choice("with_wl", 3)}
        for b in ("b1", "b2", "b3", "b4"):
            env[b] = B.bool(b)
        out = B.run(PROG_RULES, env)
        B.reach("rules")
        B.prove("rule attributes read back the constructor arguments", out["read_ok"])
        B.prove("assigning a rule attribute raises AttributeError", out["write_ok"])
        B.prove("rule attributes unchanged after the rejected assignments", out["still_ok"])
        return
    unis = [B.new(f"U{i}", "Universe") for i in range(p["nu"])]
    laws = []
    for i, u in enumerate(unis):
        L = B.get_field(u, "_laws")
        B.label(L, f"L{i}")
        laws.append(L)
    laws.append(B.new(f"L{len(unis)}", "UniverseLaws"))
    if p["mode"] == "ind":
        for u in unis:
            B.set_field(u, "_laws", B.ref(B.label_of(u) + "._laws", laws, allow_none=True))
        for L in laws:
            B.set_field(L, "_applies_to", B.ref(B.label_of(L) + "._applies_to", unis, allow_none=True))
        B.assume(inv19(B, unis, laws), "Inv19(pre)")
        B.try_public_laws(unis, laws)
        out = do_step(B, p["family"], unis, laws, "s0.")
        unis2, laws2 = collect_new(B, out, unis, laws, "new")
        B.observe("raised", out["raised"])
        for u in unis2:
            B.observe(B.label_of(u) + ".laws", B.get_field(u, "_laws"))
        for L in laws2:
            B.observe(B.label_of(L) + ".applies_to", B.get_field(L, "_applies_to"))
        B.reach("ind:" + p["family"])
        B.prove("the assignment / construction succeeds (" + p["family"] + ")", out["no_exc"])
        B.prove("the requested binding is established (" + p["family"] + ")", out["bound_ok"])
        B.prove("Inv19 after " + p["family"], inv19(B, unis2, laws2))
        return
    for step in range(p["depth"]):
        fam = FAMILIES[B.choice(f"s{step}.op", 3)]
        out = do_step(B, fam, unis, laws, f"s{step}.")
        unis, laws = collect_new(B, out, unis, laws, f"new{step}")
        B.observe(f"raised{step}", out["raised"])
        B.reach("bmc:step")
        B.prove(f"step {step + 1} ({fam}) succeeds", out["no_exc"])
        B.prove(f"step {step + 1} ({fam}) establishes the requested binding", out["bound_ok"])
        B.prove(f"Inv19 after step {step + 1} ({fam})", inv19(B, unis, laws))
    for u in unis:
        B.observe(B.label_of(u) + ".laws", B.get_field(u, "_laws"))
    for L in laws:
        B.observe(B.label_of(L) + ".applies_to", B.get_field(L, "_applies_to"))
