"""
C04  neighbors() follows exactly the documented direction / unknown-type / filter rules.

The whole graph around the queried vertex is symbolic: the two ends of every
pool link (so the vertex is origin, destination, both or neither of each link
and parallel edges arise by aliasing), the vertex's link order, the two integer
parameters, and the filter (an uninterpreted function of (link, other end)).
The real helpers.neighbors is compared element-wise with the reference decision
table refmodel.ref_neighbors; the FORWARD/BACKWARD duality is asserted separately.
"""
from harness.common import make_vertices, make_links, symbolic_assoc_state, inv01, snapshot_assoc

ID = "C04"

MANIFEST = {
    "level": "Bounded model checking by symbolic execution of the real helpers.neighbors / TwoEndedLink.other: for every "
             "class multiset of the pool links the ends of all links, the link order at the queried vertex, "
             "direction_sensitive and unknown_handling (symbolic ints in {0,1,2}) and the filter (uninterpreted function, "
             "or None) are SMT variables; the result (order, multiplicity, exception class) must equal the reference "
             "decision table, and the FORWARD/BACKWARD duality must hold for symbolic v, w.",
    "note": "Bounds: 3 vertices, 3 (quick) / 4 (thorough) two-ended links from {DirectedEdge, UnDirectedEdge, a subclass "
            "of each, another TwoEndedLink class}; well-formed links (exactly two ends, possibly None-free); caching off "
            "(the cache is C05).  Trusted: pysym (validated per path on CPython), z3, the 30-line reference table.",
    "design_ref": "DESIGN.md 5 (C04)",
}

CLASS_SETS_Q = [["DE", "UE", "TE"], ["DE", "DE", "UE"], ["SD", "SU", "TE"], ["TE", "TE", "DE"], ["UE", "UE", "SD"]]
CLASS_SETS_T = CLASS_SETS_Q + [["DE", "DE", "DE"], ["TE", "TE", "TE"], ["SU", "TE", "DE"], ["SD", "SD", "UE"],
                               ["DE", "UE", "TE", "SD"], ["TE", "UE", "DE", "DE"], ["SU", "SD", "TE", "TE"]]
BOUNDS = {"quick": {"vertices": 3, "links": 3, "class_multisets": len(CLASS_SETS_Q)},
          "thorough": {"vertices": 3, "links": "3-4", "class_multisets": len(CLASS_SETS_T)}}
TIME_BUDGET = {"quick": 300, "thorough": 1200}
STUBS = ["filterfunc -> uninterpreted function ff(link, other_end): Bool", "uuid.uuid4 -> fresh distinct integer"]
ASSUMPTIONS = [
    "direction_sensitive and unknown_handling range over the three documented constants {0,1,2}",
    "every link listed by a vertex is two-ended with exactly two ends that are vertices (Inv01 of C01 holds in the pre-state)",
    "the filter is a pure function of its arguments",
]
EXPLANATION = "real neighbors() vs reference decision table on a fully symbolic neighbourhood; plus duality clause"


def configs(tier):
    out = []
    for cs in (CLASS_SETS_Q if tier == "quick" else CLASS_SETS_T):
        for filt in ("none", "uf"):
            out.append({"classes": cs, "filter": filt, "clause": "table"})
    for cs in ([["DE", "UE"]] if tier == "quick" else [["DE", "UE"], ["DE", "TE", "UE"]]):
        out.append({"classes": cs, "filter": "uf", "clause": "table", "eq": True})
    # the filter is a callable OBJECT whose truth value is False (an empty callable container): still a filter
    out.append({"classes": ["DE", "UE", "TE"], "filter": "uf_falsy", "clause": "table"})
    # duality runs two queries on two symbolic vertices: 2 links (quick) / 3 links (thorough)
    duals = [["DE", "UE"], ["DE", "TE"], ["SD", "DE"], ["TE", "SU"]]
    if tier != "quick":
        duals = duals + [["DE", "UE", "TE"], ["DE", "DE", "SU"], ["TE", "SD", "UE"]]
    for cs in duals:
        out.append({"classes": cs, "filter": "uflink", "clause": "duality"})
    return out


def required_markers(tier):
    return ["table:returned", "table:raised", "duality"]


PROG_TABLE = '''
from edgegraph.traversal.helpers import neighbors
from refmodel import ref_neighbors
try:
    got = neighbors(v, d, u, ff)
    gexc = None
except Exception as exc:
    got = None
    gexc = type(exc).__name__
want, wexc = ref_neighbors(v, d, u, ff)
same_exc = (gexc == wexc)
same_val = (got == want)
'''

PROG_DUAL = '''
from edgegraph.traversal.helpers import neighbors
from refmodel import count_is
if ffl is None:
    f2 = None
else:
    def f2(e, x):
        return ffl(e)
both = True
try:
    fw = neighbors(v, 0, u, f2)
    bw = neighbors(w, 2, u, f2)
except NotImplementedError:
    both = False
if both:
    ok = (fw.count(w) == bw.count(v))
else:
    ok = True
'''


def scenario(B, p):
    # "eq": two of the vertices are distinct but compare equal (a Vertex subclass with value equality);
    # the rules are about identity of the ends, not equality
    verts = make_vertices(B, 3, ["EqVertex", "EqVertex", "Vertex"] if p.get("eq") else None)
    links = make_links(B, p["classes"])
    n = len(links)
    symbolic_assoc_state(B, verts, links, n, n, two_ended_wellformed=True)
    # ends are vertices (no half-assigned links in a queried vertex's list)
    for l in links:
        ends = B.get_field(l, "_vertices")
        for e in B.items(ends):
            B.assume(B.not_(B.is_(e, None)), "ends are vertices")
    B.assume(inv01(B, verts, links), "Inv01(pre)")
    u = B.int("unknown_handling", 0, 2)
    for k, val in snapshot_assoc(B, verts, links).items():
        B.observe(k, val)
    if p["clause"] == "table":
        d = B.int("direction", 0, 2)
        ff = B.uf("ff", [links, verts], "bool", falsy=p["filter"] == "uf_falsy") if p["filter"] in ("uf", "uf_falsy") else None
        v = verts[0]          # by symmetry of the symbolic ends any vertex is the queried one
        out = B.run(PROG_TABLE, {"v": v, "d": d, "u": u, "ff": ff})
        B.observe("got", out["got"])
        B.observe("gexc", out["gexc"])
        B.reach("table:returned" if out["gexc"] is None else "table:raised")
        B.prove("same exception class as the reference table", out["same_exc"])
        B.prove("same neighbours (order, multiplicity) as the reference table", out["same_val"])
    else:
        ffl = B.uf("ffl", [links], "bool") if B.choice("with_filter", 2) == 1 else None
        v = verts[0]
        w = B.ref("w", verts)
        out = B.run(PROG_DUAL, {"v": v, "w": w, "u": u, "ffl": ffl})
        B.reach("duality")
        B.prove("w occurs k times FORWARD of v  <=>  v occurs k times BACKWARD of w", out["ok"])
