"""
C12  Containers handed out or taken in are snapshots; mutating them changes nothing.
"""
from harness.common import make_vertices, make_links, symbolic_assoc_state, inv01, inv02, snapshot_assoc

ID = "C12"

MANIFEST = {
    "level": "Bounded model checking by symbolic execution of every read accessor / query (Vertex.links, Link.vertices, "
             "Universe.vertices, BaseObject.universes, UniverseLaws.edge_whitelist incl. its nested mappings, "
             "neighbors() with caching off / on - first (miss) and repeated (hit) call -, find_links(), bft / "
             "dft_recursive / dft_iterative results) and every container-taking constructor / builder (Vertex(links=, "
             "universes=, attributes=), edge(attributes=), Universe(vertices=), UniverseLaws(edge_whitelist=), "
             "load_adj_dict, load_adj_matrix) over a symbolic graph state: (i) the object handed out is not the "
             "internal container (nor a cache entry); (ii) after a symbolic mutation of the exchanged container "
             "(append / extend / remove / clear / reverse / sort / pop / item assignment / nested assignment) every accessor answers as before "
             "and the built object is unchanged.",
    "note": "Bounds: 3 vertices, 2 two-ended links, 1 universe, one mutation per exchanged container. Mutation of the "
            "ELEMENTS (vertices are shared by design) is outside. Trusted: pysym (validated per path on CPython), z3.",
    "design_ref": "DESIGN.md 5 (C12)",
}

BOUNDS = {"quick": {"vertices": 3, "links": 2}, "thorough": {"vertices": 3, "links": "2-3"}}
TIME_BUDGET = {"quick": 400, "thorough": 1200}
STUBS = ["types.MappingProxyType -> read-only view of the given dict (aliasing preserved)"]
ASSUMPTIONS = ["one mutation per handed-out container", "pool bound as stated"]
EXPLANATION = "aliasing + behavioural snapshot checks for every accessor and constructor over a symbolic state"

ACCESSORS = ["links", "vertices", "members", "universes", "neighbors", "neighbors_hit", "find_links", "bft", "dft_recursive", "dft_iterative"]
MUTATIONS = ["append", "clear", "reverse", "pop", "setitem", "add", "remove", "sort", "extend"]
INPUTS = ["vertex_links", "vertex_universes", "vertex_attributes", "edge_attributes", "universe_vertices",
          "adj_dict", "adj_matrix"]          # UniverseLaws(edge_whitelist=) has its own configuration


def configs(tier):
    out = []
    for a in ACCESSORS:
        out.append({"kind": "out", "accessor": a})
    if tier != "quick":
        for a in ("neighbors", "neighbors_hit", "find_links"):
            out.append({"kind": "out", "accessor": a, "links3": True})
    out.append({"kind": "whitelist"})
    for i in INPUTS:
        out.append({"kind": "in", "input": i})
    return out


def required_markers(tier):
    return ["out", "whitelist", "in"]


PROG_OUT = '''
from edgegraph.structure import Vertex
from edgegraph.traversal.helpers import neighbors, find_links
from edgegraph.traversal import breadthfirst, depthfirst
Vertex.NEIGHBOR_CACHING = caching

def access():
    if accessor == "links":
        return v.links
    if accessor == "vertices":
        return l.vertices
    if accessor == "members":
        return U.vertices
    if accessor == "universes":
        return v.universes
    if accessor == "neighbors" or accessor == "neighbors_hit":
        return neighbors(v, 1)
    if accessor == "find_links":
        return find_links(v, w, False)
    if accessor == "bft":
        return breadthfirst.bft(None, v, direction_sensitive=1)
    if accessor == "dft_recursive":
        return depthfirst.dft_recursive(None, v, direction_sensitive=1)
    return depthfirst.dft_iterative(None, v, direction_sensitive=1)

def internals():
    out = [v._links, l._vertices, U._vertices, v._universes]
    for x in pool:
        for entry in x._Vertex__qa_nb_cache.values():
            out.append(entry)
    return out

if accessor == "neighbors_hit":
    access()
r = access()
aliased = False
for c in internals():
    if r is c:
        aliased = True
if isinstance(r, set):
    copy = set(r)
else:
    copy = list(r)
mutated = True
try:
    if mutation == "append":
        r.append(obj)
    elif mutation == "clear":
        r.clear()
    elif mutation == "reverse":
        r.reverse()
    elif mutation == "pop":
        r.pop()
    elif mutation == "setitem":
        r[0] = obj
    elif mutation == "remove":
        r.remove(obj)
    elif mutation == "sort":
        r.sort(key=id, reverse=True)
    elif mutation == "extend":
        r.extend([obj, obj])
    else:
        r.add(obj)
except (AttributeError, TypeError, IndexError, KeyError, ValueError):
    mutated = False
again = access()
if isinstance(again, set):
    same = (again == copy)
else:
    same = (list(again) == copy)
# every other accessor still answers from the untouched graph
others = (list(v.links) == links0) and (list(l.vertices) == ends0) and (U.vertices == members0) and (v.universes == unis0)
nb_again = neighbors(v, 1)
Vertex.NEIGHBOR_CACHING = False
nb_plain = neighbors(v, 1)
others = others and (nb_again == nb_plain)
'''

PROG_SNAP = '''
links0 = list(v._links)
ends0 = list(l._vertices)
members0 = list(U._vertices)
unis0 = list(v._universes)
'''

PROG_WL = '''
from edgegraph.structure import Vertex, DirectedEdge, UnDirectedEdge, Universe
from edgegraph.structure.universe import UniverseLaws
if start == 0:
    wl = {Vertex: {Vertex: DirectedEdge}}
    want = {Vertex: {Vertex: DirectedEdge}}
elif start == 1:
    wl = {}
    want = {}
else:
    wl = {Vertex: {}}
    want = {Vertex: {}}
L = UniverseLaws(edge_whitelist=wl)
def plain(m):
    return {k: dict(x) for k, x in m.items()}
# (1) mutate the dictionary that was passed in
if step == 0:
    wl[Universe] = {}
elif step == 1:
    if Vertex in wl:
        wl[Vertex][Universe] = UnDirectedEdge
    else:
        wl[Vertex] = {Universe: UnDirectedEdge}
elif step == 2:
    if Vertex in wl:
        wl[Vertex].clear()
    wl[Universe] = {Vertex: DirectedEdge}
elif step == 3:
    wl.clear()
    wl[Vertex] = {Vertex: UnDirectedEdge}
in_ok = plain(L.edge_whitelist) == want
# (2) try to mutate what is handed out, at both levels
out = L.edge_whitelist
blocked = 0
try:
    out[Universe] = {}
except TypeError:
    blocked = blocked + 1
try:
    if Vertex in out:
        out[Vertex][Universe] = UnDirectedEdge
    else:
        out[Vertex] = {}
except TypeError:
    blocked = blocked + 1
out_ok = plain(L.edge_whitelist) == want
'''

PROG_IN = '''
from edgegraph.structure import Vertex, DirectedEdge, UnDirectedEdge, Universe
from edgegraph.builder.adjlist import load_adj_dict
from edgegraph.builder.adjmatrix import load_adj_matrix

def observe(o):
    out = []
    for f in ("_links", "_vertices", "_universes"):
        if f in o.__dict__:
            out.append(list(o.__dict__[f]))
    out.append(getattr(o, "tag", None))
    return out

def mutate(c):
    if isinstance(c, dict):
        if mutation == "append" or mutation == "setitem" or mutation == "add":
            c["tag"] = "changed"
            c["extra"] = 1
        else:
            c.clear()
    elif mutation == "append" or mutation == "add":
        c.append(obj)
    elif mutation == "clear":
        c.clear()
    elif mutation == "reverse":
        c.reverse()
    elif mutation == "pop":
        if len(c) > 0:
            c.pop()
    elif mutation == "remove":
        if obj in c:
            c.remove(obj)
    elif mutation == "sort":
        if any(isinstance(x, int) for x in c):
            c.reverse()
        else:
            c.sort(key=id, reverse=True)
    elif mutation == "extend":
        c.extend([obj, obj])
    elif len(c) > 0:
        c[0] = obj

built = []
if inp == "vertex_links":
    arg = list(some_links)
    n = Vertex(links=arg)
    built = [n] + pool + plinks
elif inp == "vertex_universes":
    arg = [U]
    n = Vertex(universes=arg)
    built = [n, U]
elif inp == "vertex_attributes":
    arg = {"tag": "t0"}
    n = Vertex(attributes=arg)
    built = [n]
elif inp == "edge_attributes":
    arg = {"tag": "t0"}
    n = DirectedEdge(v, w, attributes=arg)
    built = [n]
elif inp == "universe_vertices":
    arg = list(some_verts)
    n = Universe(vertices=arg)
    built = [n] + pool
elif inp == "adj_dict":
    inner = list(some_verts)
    arg = {v: inner}
    n = load_adj_dict(arg, DirectedEdge)
    built = [n] + pool
    before = [observe(o) for o in built]
    mutate(inner)
    inner_ok = [observe(o) for o in built] == before
else:
    row0 = [cell, 0]
    arg = [row0, [0, 1]]
    side = [v, w]
    n = load_adj_matrix(arg, side, DirectedEdge)
    built = [n] + pool
    before = [observe(o) for o in built]
    mutate(row0)
    mutate(side)
    inner_ok = [observe(o) for o in built] == before
before = [observe(o) for o in built]
extra_attr_before = hasattr(n, "extra")
mutate(arg)
same = ([observe(o) for o in built] == before) and (hasattr(n, "extra") == extra_attr_before)
'''


def scenario(B, p):
    verts = make_vertices(B, 3)
    links = make_links(B, ["DE", "UE", "DE"] if p.get("links3") else ["DE", "UE"])
    if p["kind"] == "whitelist":
        out = B.run(PROG_WL, {"step": B.choice("step", 4), "start": B.choice("start", 3)})
        B.reach("whitelist")
        B.prove("mutating the dict passed as edge_whitelist does not change the laws", out["in_ok"])
        B.prove("the handed-out whitelist rejects assignment at both levels", out["blocked"] == 2)
        B.prove("the laws are unchanged after the rejected assignments", out["out_ok"])
        return
    symbolic_assoc_state(B, verts, links, len(links), len(links) + 3, two_ended_wellformed=True)
    for l in links:
        for e in B.items(B.get_field(l, "_vertices")):
            B.assume(B.not_(B.is_(e, None)), "ends are vertices")
    B.assume(inv01(B, verts, links), "Inv01(pre)")
    U = B.new("U", "Universe")
    B.set_field(U, "_vertices", B.reflist("U.members", verts, 3, 6))
    for v in verts:
        B.set_field(v, "_universes", B.reflist(B.label_of(v) + "._universes", [U], 1, 4))
    B.assume(inv02(B, verts, [U]), "Inv02(pre)")
    v = verts[0]
    w = B.ref("w", verts)
    obj = B.ref("obj", verts + links)
    mi = B.choice("mutation", len(MUTATIONS))
    env = {"v": v, "w": w, "l": B.ref("l", links), "U": U, "pool": B.mklist(verts), "plinks": B.mklist(links),
           "obj": obj, "mutation": MUTATIONS[mi]}
    for k, val in snapshot_assoc(B, verts, links, [U]).items():
        B.observe(k, val)
    if p["kind"] == "out":
        env["accessor"] = p["accessor"]
        env["caching"] = B.bool("caching")
        env.update({k: x for k, x in B.run(PROG_SNAP, env).items() if k in ("links0", "ends0", "members0", "unis0")})
        out = B.run(PROG_OUT, env)
        B.observe("mutated", out["mutated"])
        B.reach("out")
        B.prove(f"{p['accessor']}: the container handed out is not an internal container / cache entry", B.not_(out["aliased"]))
        B.prove(f"{p['accessor']}: same answer after the caller mutated what was handed out", out["same"])
        B.prove(f"{p['accessor']}: every other accessor unaffected", out["others"])
        return
    env["inp"] = p["input"]
    env["some_links"] = B.reflist("some_links", links, 2, 5)
    env["some_verts"] = B.reflist("some_verts", verts, 2, 5)
    env["cell"] = B.int("cell", 0, 1)
    env["inner_ok"] = True
    out = B.run(PROG_IN, env)
    B.reach("in")
    B.prove(f"{p['input']}: mutating the passed container afterwards does not change what was built", out["same"])
    B.prove(f"{p['input']}: mutating nested input containers afterwards does not change what was built", out["inner_ok"])
