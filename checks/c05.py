"""
C05  Neighbor caching is transparent: cached answers always equal recomputed ones.

History shape (every part symbolic): arbitrary graph state  ->  caching on, an arbitrary subset of vertices
is queried (warm entries, created through the public API)  ->  an arbitrary subset of vertices loses its
statistics record (models objects that were un-pickled in a fresh interpreter)  ->  flag := b1  ->  one
(quick) / two (thorough) arbitrary mutator calls, flag := b2 in between  ->  caching on  ->  every vertex
is queried twice (miss-or-hit, then hit) and each answer is compared with the answer recomputed with the
flag forced off (list identity element-wise, or exception class).
"""
from harness.common import make_vertices, make_links, symbolic_assoc_state, inv01, snapshot_assoc
from checks import c01

ID = "C05"

MANIFEST = {
    "level": "Bounded model checking by symbolic execution of the real cache (Vertex._qa_neighbors_get/_insert/"
             "_invalidate), helpers.neighbors, every mutator of C01 and the traversals: from an arbitrary valid graph "
             "state with an arbitrary set of warm cache entries (created by real queries with symbolic direction / "
             "unknown-handling / filter), an arbitrary subset of vertices without a statistics record (un-pickled in a "
             "fresh interpreter), symbolic flag toggles and one (quick) / two (thorough) symbolic mutator calls of any "
             "family on any object, every later cached answer (first and repeated query, every vertex) must equal the "
             "answer recomputed with caching off. A second configuration does traverse - mutate - traverse for "
             "bft / dft_recursive / dft_iterative / bfs.",
    "note": "Bounds: 3 vertices, 2 two-ended pool links (+1 created), mutator sequence length 1/2 after the warm-up, one "
            "(direction, unknown, filter) key per run (two independent keys in the two-key configurations; a filter "
            "object without a hash in one configuration). Because the start state is arbitrary (not only freshly built), the "
            "claim covers any history prefix that ends in a valid graph with coherent cache entries. Process boundary "
            "is modelled by the missing statistics record; real pickling is C10. id()-reuse / garbage collection are "
            "outside every claim. Trusted: pysym (validated per path on CPython), z3.",
    "design_ref": "DESIGN.md 5 (C05)",
}

BOUNDS = {"quick": {"vertices": 3, "links": 2, "mutators_after_warmup": 1}, "thorough": {"vertices": 3, "links": 2, "mutators_after_warmup": 2}}
TIME_BUDGET = {"quick": 420, "thorough": 1200}
STUBS = ["filterfunc -> uninterpreted function", "un-pickled vertex -> vertex whose uid is absent from Vertex._CACHE_STATS"]
ASSUMPTIONS = ["filters are pure functions kept alive by the caller", "pool bound as C01"]
EXPLANATION = "warm-up queries, flag toggles, arbitrary mutator, then cached vs uncached answers for every vertex"

FAMILIES = c01.FAMILIES


CHEAP = ["add_to_link", "remove_from_link", "add_vertex", "unlink_from", "set_v1", "set_v2"]


def configs(tier):
    out = []
    q = tier == "quick"
    pools = [["DE", "UE"], ["DE", "TE"]] if q else [["DE", "UE"], ["DE", "TE"], ["SD", "SU"]]
    # (a) arbitrary symbolic start state (any list order), the end / association mutators
    for pool in (pools[:1] if q else pools):
        for fam in (("set_v1", "set_v2", "unlink_from", "add_vertex") if q else CHEAP):
            out.append({"mode": "neighbors", "state": "symbolic", "pool": pool, "families": [fam],
                        "filter": "uf" if (fam in ("set_v1", "unlink_from") and pool == ["DE", "UE"]) else "none"})
    # (b) start state built by the public constructors with symbolic ends; every family
    for pool in pools[:2]:
        for fam in FAMILIES:
            if q and pool == ["DE", "TE"] and fam not in ("set_v2", "add_vertex", "remove_from_link"):
                continue
            out.append({"mode": "neighbors", "state": "built", "pool": pool, "families": [fam], "filter": "none"})
    if not q:
        for f1, f2 in (("set_v1", "set_v2"), ("unlink_from", "add_vertex"), ("remove_from_link", "add_to_link")):
            out.append({"mode": "neighbors", "state": "built", "pool": ["DE", "UE"], "families": [f1, f2], "filter": "none"})
    # (c) a vertex without statistics record (un-pickled in a fresh interpreter): hit, miss, insert, invalidate paths
    out.append({"mode": "neighbors", "state": "built", "pool": ["DE", "UE"], "families": ["set_v2"], "filter": "none", "unreg": True})
    out.append({"mode": "neighbors", "state": "built", "pool": ["DE", "UE"], "families": ["add_to_link"], "filter": "none", "unreg": True})
    # (c') the filter is a callable object without a hash (defines __eq__ only): it cannot be a cache key
    out.append({"mode": "neighbors", "state": "built", "pool": ["DE", "UE"], "families": ["set_v2"], "filter": "ufu"})
    # (c'') the warm-up query and the checked query use independent (direction, unknown-handling) arguments:
    # an entry stored for one argument combination must never answer another
    out.append({"mode": "neighbors", "state": "built", "pool": ["DE", "TE"], "families": [], "filter": "none", "twokeys": True})
    if not q:
        out.append({"mode": "neighbors", "state": "built", "pool": ["DE", "TE"], "families": ["set_v2"], "filter": "none", "twokeys": True})
    # (d) traverse - mutate - traverse
    for fam in (("set_v2",) if q else ("set_v1", "set_v2", "unlink", "ctor", "unlink_from", "add_vertex")):
        out.append({"mode": "traversal", "state": "built", "pool": ["DE", "UE"], "families": [fam], "filter": "none"})
    return out


def required_markers(tier):
    return ["neighbors", "traversal"]


PROG_WARM = '''
from edgegraph.structure import Vertex
from edgegraph.traversal.helpers import neighbors

def q(v):
    try:
        return neighbors(v, d, u, ff), None
    except Exception as exc:
        return None, type(exc).__name__

Vertex.NEIGHBOR_CACHING = True
i = 0
while i < len(verts):
    if warm[i]:
        q(verts[i])
    i = i + 1
i = 0
while i < len(verts):
    if unreg[i]:
        Vertex._CACHE_STATS.pop(verts[i].uid, None)
    i = i + 1
'''

PROG_FLAG = '''
from edgegraph.structure import Vertex
Vertex.NEIGHBOR_CACHING = flag
'''

PROG_CHECK = '''
from edgegraph.structure import Vertex
from edgegraph.traversal.helpers import neighbors

def q(v):
    try:
        return neighbors(v, d, u, ff), None
    except Exception as exc:
        return None, type(exc).__name__

Vertex.NEIGHBOR_CACHING = True
ok = True
answers = []
for v in verts:
    got = q(v)
    Vertex.NEIGHBOR_CACHING = False
    want = q(v)
    Vertex.NEIGHBOR_CACHING = True
    got2 = q(v)
    ok = ok and (got == want) and (got2 == want)
    answers.append(want)
Vertex.NEIGHBOR_CACHING = False
'''

PROG_TRAV = '''
from edgegraph.structure import Vertex
from edgegraph.traversal import breadthfirst, depthfirst

def run_all():
    out = []
    for fn in (breadthfirst.bft, depthfirst.dft_recursive, depthfirst.dft_iterative):
        try:
            out.append((fn(None, start, direction_sensitive=d), None))
        except Exception as exc:
            out.append((None, type(exc).__name__))
    try:
        out.append((breadthfirst.bfs(None, start, "nosuchattr", 1), None))
    except Exception as exc:
        out.append((None, type(exc).__name__))
    return out
'''


PROG_BUILD = '''
e0 = L0(p0, q0)
e1 = L1(p1, q1)
'''


def scenario(B, p):
    # one pool vertex is of a falsy Vertex subclass (an "empty container" vertex)
    verts = make_vertices(B, 3, ["Vertex", "FalsyVertex", "Vertex"] if p["state"] == "symbolic" else ["FalsyVertex", "Vertex", "Vertex"])
    if p["state"] == "symbolic":
        links = make_links(B, p["pool"])
        symbolic_assoc_state(B, verts, links, 2, 4, two_ended_wellformed=True)
        for l in links:
            for e in B.items(B.get_field(l, "_vertices")):
                B.assume(B.not_(B.is_(e, None)), "ends are vertices")
        B.assume(inv01(B, verts, links), "Inv01(pre)")
        B.try_public_assoc(verts, links)
    else:
        from harness.common import LINK_CLASS_MENU
        out = B.run(PROG_BUILD, {"L0": B.cls(LINK_CLASS_MENU[p["pool"][0]]), "L1": B.cls(LINK_CLASS_MENU[p["pool"][1]]),
                                 "p0": B.ref("e0.v1", verts), "q0": B.ref("e0.v2", verts),
                                 "p1": B.ref("e1.v1", verts), "q1": B.ref("e1.v2", verts)})
        links = [B.label(out["e0"], "e0"), B.label(out["e1"], "e1")]
    d = B.int("direction", 0, 2)
    if p["mode"] == "neighbors":
        u = B.int("unknown_handling", 0, 2) if "TE" in p["pool"] else 2
        ff = (B.uf("ff", [links + ["new"], verts + [None]], "bool", unhashable=p["filter"] == "ufu")
              if p["filter"] in ("uf", "ufu") else None)
        # warm entries only matter where they exist and a missing statistics record only where it is missing:
        # "all vertices" / "no vertex" for each (one symbolic bit each) covers the per-vertex cases
        # the queried vertex: only its own entry and statistics record can matter to its answer.
        # With symbolic ends any vertex can be the queried one: take the first (symbolic start state: symbolic x)
        x = B.ref("x", verts) if p["state"] == "symbolic" else verts[0]
        env = {"verts": B.mklist([x]), "d": d, "u": u, "ff": ff,
               "warm": B.mklist([True if not p.get("unreg") else B.bool("warm")]),
               "unreg": B.mklist([B.bool("unregistered") if p.get("unreg") else False])}
        if p.get("twokeys"):
            B.run(PROG_WARM, dict(env, d=B.int("direction0", 0, 2), u=B.int("unknown_handling0", 0, 2)))
        else:
            B.run(PROG_WARM, env)
        allv, alll = verts, links
        for si, fam in enumerate(p["families"]):
            B.run(PROG_FLAG, {"flag": B.bool(f"flag{si}")})
            outcome, r = c01.do_step(B, fam, allv, alll, f"s{si}.")
            if fam == "vertex_ctor":
                allv = allv + B.adopt(r, f"newv{si}")
            if fam in ("ctor", "link_from_to"):
                alll = alll + B.adopt(r, f"new")
            alll = alll + B.discover(allv, "_links", f"found{si}_")
            B.observe(f"outcome{si}", outcome)
        out = B.run(PROG_CHECK, env)
        B.observe("answers", out["answers"])
        for k, val in snapshot_assoc(B, allv, alll).items():
            B.observe(k, val)
        B.reach("neighbors")
        B.prove("every cached answer equals the answer recomputed with caching off", out["ok"])
        return
    start = verts[0]
    env = B.run(PROG_TRAV, {"start": start, "d": d})
    B.run(PROG_FLAG, {"flag": True})
    first = B.run("r1 = run_all()", env)["r1"]
    allv, alll = verts, links
    for si, fam in enumerate(p["families"]):
        B.run(PROG_FLAG, {"flag": B.bool(f"flag{si}")})
        outcome, r = c01.do_step(B, fam, allv, alll, f"s{si}.")
        if fam in ("ctor", "link_from_to"):
            alll = alll + B.adopt(r, "new")
        alll = alll + B.discover(allv, "_links", f"found{si}_")
    B.run(PROG_FLAG, {"flag": True})
    cached = B.run("r2 = run_all()", env)["r2"]
    B.run(PROG_FLAG, {"flag": False})
    plain = B.run("r3 = run_all()", env)["r3"]
    B.observe("plain", plain)
    B.reach("traversal")
    B.prove("traversals / search after a mutation: cached == uncached", B.run("ok = (a == b)", {"a": cached, "b": plain})["ok"])
