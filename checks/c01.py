"""
C01  Vertex-link association is symmetric and duplicate-free after every history.

Two modes (see DESIGN 4.1):

* IND  - one symbolic step of one mutator family from an ARBITRARY pool state
         satisfying Inv01 (every list symbolic: lengths, elements, aliasing);
         Inv01 asserted afterwards, on returning and on raising paths.
* BMC  - k symbolic steps from the freshly constructed pool (public API only);
         Inv01 asserted after every step.
"""
from harness.common import (make_vertices, make_links, symbolic_assoc_state, inv01, links_typed, snapshot_assoc,
                            LINK_CLASS_MENU)

ID = "C01"

MANIFEST = {
    "level": "Bounded model checking by symbolic execution of the real mutators: (IND) one symbolic call of each of 10 "
             "mutator families from an arbitrary pool state satisfying the invariant - all list lengths, elements and "
             "argument aliasings are SMT variables - proves the invariant inductive, i.e. for histories of any length "
             "within the pool bound; (BMC) every history of depth 2 (quick) / 3 (thorough) from the constructed pool, plus depth 2 over the link-side "
             "mutators from pool edges built by the public constructor with symbolic ends. "
             "The invariant is asserted on returning and on raising paths.",
    "note": "Bounds: 3 vertices, 2 pool links (+1 created), pre-state lists <= 2 (quick; 3 for unlink / v1= / unlink_from, so that a "
            "two-ended edge can name a third vertex) / 3 (thorough). Trusted: pysym's "
            "model of Python (validated on every explored path against CPython), z3. Counterexamples to induction are "
            "reported only if their pre-state is reached through the public API on the real code.",
    "design_ref": "DESIGN.md 5 (C01), 4.1",
}

FAMILIES = ["add_to_link", "remove_from_link", "add_vertex", "unlink_from", "set_v1", "set_v2",
            "ctor", "link_from_to", "unlink", "vertex_ctor"]

# link-class assignments of the two pool links (up to symmetry)
POOLS_Q = [["DE", "UE"], ["DE", "GL"], ["TE", "DE"]]
POOLS_T = [["DE", "UE"], ["DE", "GL"], ["TE", "DE"], ["UE", "UE"], ["SD", "TE"], ["GL", "GL"]]

BOUNDS = {
    "quick": {"vertices": 3, "pool_links": 2, "links_created_by_step": 1, "pre_state_list_len": 2, "list_capacity": 4,
              "ind_families": len(FAMILIES), "bmc_depth": 2, "call_depth": 60},
    "thorough": {"vertices": 3, "pool_links": 2, "links_created_by_step": 1, "pre_state_list_len": 3, "list_capacity": 5,
                 "ind_families": len(FAMILIES), "bmc_depth": "2 (all families), 3 (six association / end mutators)", "call_depth": 60},
}
TIME_BUDGET = {"quick": 420, "thorough": 1200}
STUBS = ["uuid.uuid4 -> fresh distinct integer"]
ASSUMPTIONS = [
    "IND: before the step the heap holds at most 3 vertices and 2 links (classes from the stated menus) and no "
    "association list is longer than the stated bound; the step may create one link and lengthen lists up to the capacity",
    "vertex / link subclasses do not override __eq__ / __hash__; arguments are of the documented types",
    "a counterexample is reported only after it reproduced on the real code under /venv/bin/python",
]
EXPLANATION = ("inductive step (arbitrary Inv01 pre-state, one symbolic call per mutator family) plus bounded "
               "histories from the constructed pool; every list length, element and argument aliasing is an SMT variable")


def configs(tier):
    out = []
    K, cap = (2, 4) if tier == "quick" else (3, 5)
    pools = POOLS_Q if tier == "quick" else POOLS_T
    for pool in pools:
        for fam in FAMILIES:
            out.append({"mode": "ind", "family": fam, "pool": pool, "K": K, "cap": cap})
    for pool in ([["DE", "UE"], ["TE", "GL"]] if tier == "quick" else [["DE", "UE"], ["TE", "GL"], ["DE", "DE"]]):
        out.append({"mode": "bmc", "pool": pool, "depth": 2})
    # the pool edges built by the public constructor with symbolic ends, then two link-side mutators
    # (histories such as  e = DE(a, b); e.v1 = c; e.v1 = a  of length three, one constructor included)
    out.append({"mode": "bmc", "pool": ["DE", "UE"], "depth": 2, "families": FAMILIES[2:6], "built": True})
    # a two-ended edge that names a third vertex (e.add_vertex(c) is public) under unlink / the end setters
    for fam in ("unlink", "set_v1", "unlink_from"):
        out.append({"mode": "ind", "family": fam, "pool": ["DE", "UE"], "K": 3, "cap": 5})
    if tier != "quick":
        # depth 3 over the six association / end mutators (the constructors and builders multiply the tree)
        out.append({"mode": "bmc", "pool": ["DE", "UE"], "depth": 3, "families": FAMILIES[:6]})
    return out


def required_markers(tier):
    return ["ind:" + f for f in FAMILIES] + ["bmc:step"]


STEP_SRC = {
    "add_to_link": "v.add_to_link(l)",
    "remove_from_link": "v.remove_from_link(l)",
    "add_vertex": "l.add_vertex(x)",
    "unlink_from": "l.unlink_from(x)",
    "set_v1": "l.v1 = x",
    "set_v2": "l.v2 = x",
    "ctor": "r = LCLS(x, y)",
    "link_from_to": "r = link_from_to(v, LCLS, w, dontdup=dd)",
    "unlink": "r = unlink(v, w, destroy=dd)",
    "vertex_ctor": "r = Vertex(links=ls)",
}

PROGRAM = '''
from edgegraph.builder.explicit import link_from_to, unlink
r = None
try:
    %s
    outcome = "ok"
except Exception as exc:
    outcome = type(exc).__name__
'''


PROG_BUILD = '''
e0 = L0(p0, q0)
e1 = L1(p1, q1)
'''


def do_step(B, fam, verts, links, tag, lcls_choice=None):
    """one symbolic call of the family ``fam`` with symbolic arguments"""
    env = {}
    if fam in ("add_to_link", "remove_from_link"):
        env["v"] = B.ref(tag + "v", verts)
        env["l"] = B.ref(tag + "l", links)
    elif fam in ("add_vertex", "unlink_from", "set_v1", "set_v2"):
        env["l"] = B.ref(tag + "l", links)
        env["x"] = B.ref(tag + "x", verts, allow_none=True)
    elif fam == "ctor":
        env["x"] = B.ref(tag + "x", verts, allow_none=True)
        env["y"] = B.ref(tag + "y", verts, allow_none=True)
        env["LCLS"] = B.cls(LINK_CLASS_MENU[["DE", "UE", "TE"][B.choice(tag + "cls", 3)]])
    elif fam == "link_from_to":
        env["v"] = B.ref(tag + "v", verts)
        env["w"] = B.ref(tag + "w", verts)
        env["dd"] = B.bool(tag + "dd")
        env["LCLS"] = B.cls(LINK_CLASS_MENU[["DE", "UE", "TE"][B.choice(tag + "cls", 3)]])
    elif fam == "unlink":
        env["v"] = B.ref(tag + "v", verts)
        env["w"] = B.ref(tag + "w", verts)
        env["dd"] = B.bool(tag + "dd")
    elif fam == "vertex_ctor":
        env["ls"] = B.reflist(tag + "ls", links, 2, 2)
        env["Vertex"] = B.cls("Vertex")
    out = B.run(PROGRAM % STEP_SRC[fam], env)
    return out["outcome"], out.get("r")


def scenario(B, p):
    # one pool vertex is of a falsy Vertex subclass (legal: an empty container-like vertex)
    verts = make_vertices(B, 3, ["Vertex", "FalsyVertex", "Vertex"])
    if p.get("built"):
        out = B.run(PROG_BUILD, {"L0": B.cls(LINK_CLASS_MENU[p["pool"][0]]), "L1": B.cls(LINK_CLASS_MENU[p["pool"][1]]),
                                 "p0": B.ref("e0.v1", verts, allow_none=True), "q0": B.ref("e0.v2", verts, allow_none=True),
                                 "p1": None, "q1": None})
        links = [B.label(out["e0"], "e0"), B.label(out["e1"], "e1")]
    else:
        links = make_links(B, p["pool"])
    if p["mode"] == "ind":
        symbolic_assoc_state(B, verts, links, p["K"], p["cap"])
        B.assume(inv01(B, verts, links), "Inv01(pre)")
        B.try_public_assoc(verts, links)
        outcome, r = do_step(B, p["family"], verts, links, "s0.")
        verts2 = verts + (B.adopt(r, "newv") if p["family"] == "vertex_ctor" else [])
        links2 = links + (B.adopt(r, "newl") if p["family"] in ("ctor", "link_from_to") else [])
        links2 = links2 + B.discover(verts2, "_links", "found")
        B.observe("outcome", outcome)
        for k, val in snapshot_assoc(B, verts2, links2).items():
            B.observe(k, val)
        B.reach("ind:" + p["family"])
        B.prove("Inv01 after " + p["family"], B.and_(inv01(B, verts2, links2), links_typed(B, verts2, links2)))
        return
    # ---- BMC: k steps from the constructed pool
    fams = p.get("families", FAMILIES)
    for step in range(p["depth"]):
        fam = fams[B.choice(f"s{step}.op", len(fams))]
        outcome, r = do_step(B, fam, verts, links, f"s{step}.")
        if fam == "vertex_ctor":
            verts = verts + B.adopt(r, f"newv{step}")
        if fam in ("ctor", "link_from_to"):
            links = links + B.adopt(r, f"newl{step}")
        links = links + B.discover(verts, "_links", f"found{step}_")
        B.observe(f"outcome{step}", outcome)
        B.reach("bmc:step")
        B.prove(f"Inv01 after step {step + 1} ({fam})", B.and_(inv01(B, verts, links), links_typed(B, verts, links)))
    for k, val in snapshot_assoc(B, verts, links).items():
        B.observe(k, val)
