"""
C18  True singletons: at most one live instance per class between clears.
"""
ID = "C18"

MANIFEST = {
    "level": "Bounded model checking by symbolic execution of the real TrueSingleton.__call__ and clear_true_singleton: "
             "histories of depth 3 (quick) / 4 (thorough) over five classes (two independent singleton classes - one of "
             "whose constructors calls the global clear while it runs, for one argument value -, a "
             "subclass of one of them, a class whose instances are falsy, and a factory class whose __new__ hands out an "
             "instance of a subclass), starting from an arbitrary subset of "
             "classes already instantiated; op kinds and classes fork, constructor arguments (positional / keyword) are "
             "symbolic integers. After every step the real behaviour must equal a per-class reference (same object "
             "until cleared, __init__ once per period with the first call's arguments, exact class, per-class "
             "isolation, global clear resets all, clearing an absent class is a no-op, nothing raises); a final probe "
             "of every class checks isolation.",
    "note": "Bounds: 5 classes, history depth 3/4 after the symbolic start-up. Garbage collection / weak references are "
            "outside every claim (DESIGN 6). Trusted: pysym's metaclass model (validated per path on CPython), z3.",
    "design_ref": "DESIGN.md 5 (C18)",
}

BOUNDS = {"quick": {"classes": 5, "depth": 3}, "thorough": {"classes": 5, "depth": 4}}
TIME_BUDGET = {"quick": 300, "thorough": 1200}
STUBS = []
ASSUMPTIONS = ["in the symbolic histories instances are kept alive by the caller (garbage collection is not modelled; "
               "weakref.WeakValueDictionary is modelled as a dict); one native replay drops its references and collects"]
EXPLANATION = "bounded histories of constructions / targeted clears / global clears against a per-class reference"


def configs(tier):
    # the symbolic start-up subset ranges over A, its subclass and (quick) the factory class; with one more step the
    # thorough tier reaches the factory class by the history itself
    return [{"depth": 3, "pre": [0, 2, 4]} if tier == "quick" else {"depth": 4, "pre": [0, 2]}, {"depth": 0, "native_gc": True, "pre": []}]


def required_markers(tier):
    return ["history"]


PROG = '''
from edgegraph.structure import singleton

COUNT = {"A": 0, "B": 0, "SubA": 0, "F": 0, "K": 0}

class A(metaclass=singleton.TrueSingleton):
    def __init__(self, x=None, y=None):
        COUNT[type(self).__name__] += 1
        self.x = x
        self.y = y

class B(metaclass=singleton.TrueSingleton):
    def __init__(self, x=None, y=None):
        COUNT[type(self).__name__] += 1
        self.x = x
        self.y = y
        if y == 3:
            # a constructor that resets the program's other singletons while it runs
            singleton.clear_true_singleton()

class SubA(A):
    pass

class F(metaclass=singleton.TrueSingleton):
    def __init__(self, x=None, y=None):
        COUNT[type(self).__name__] += 1
        self.x = x
        self.y = y

    def __bool__(self):
        return False

    def __len__(self):
        return 0

class K(metaclass=singleton.TrueSingleton):
    """a factory class: constructing it yields an instance of a subclass chosen by __new__"""
    def __new__(cls, x=None, y=None):
        return object.__new__(KImpl)

    def __init__(self, x=None, y=None):
        COUNT["K"] += 1
        self.x = x
        self.y = y

class KImpl(K):
    pass

CLASSES = [A, B, SubA, F, K]
NAMES = ["A", "B", "SubA", "F", "K"]
KINDS = [A, B, SubA, F, KImpl]      # the exact class of what each constructor hands out
N = 5
inst = [None, None, None, None, None]
first = [None, None, None, None, None]
cnt = [0, 0, 0, 0, 0]
ok = True
raised = None

def construct(ci, style, a1, a2):
    global ok
    cls = CLASSES[ci]
    if style == 0:
        r = cls(a1)
        fa = (a1, None)
    elif style == 1:
        r = cls(x=a1, y=a2)
        fa = (a1, a2)
    elif style == 2:
        r = cls(a1, y=a2)
        fa = (a1, a2)
    else:
        r = cls()
        fa = (None, None)
    if inst[ci] is None:
        if NAMES[ci] == "B" and fa[1] == 3:
            # its constructor cleared every singleton; the instance under construction becomes B's afterwards
            j = 0
            while j < N:
                inst[j] = None
                j = j + 1
        inst[ci] = r
        first[ci] = fa
        cnt[ci] = cnt[ci] + 1
    ok = ok and (r is inst[ci]) and (type(r) is KINDS[ci]) and (COUNT[NAMES[ci]] == cnt[ci])
    ok = ok and (r.x == first[ci][0]) and (r.y == first[ci][1])
    j = 0
    while j < N:
        if j != ci and inst[j] is not None:
            ok = ok and (r is not inst[j])
        j = j + 1

try:
    for op in ops:
        kind, ci, style, a1, a2 = op
        if kind == 0:
            construct(ci, style, a1, a2)
        elif kind == 1:
            singleton.clear_true_singleton(CLASSES[ci])
            inst[ci] = None
        else:
            singleton.clear_true_singleton()
            inst = [None, None, None, None, None]
    # final probe: every class still answers according to the reference
    ci = 0
    while ci < N:
        construct(ci, 0, probe, None)
        ci = ci + 1
except Exception as exc:
    raised = type(exc).__name__
no_exc = raised is None
'''


def native_unreferenced(B):
    """[native replay] the caller keeps NO reference to the instance between constructions (garbage collection
    is outside the symbolic model): the instance must survive until it is cleared"""
    import gc
    from edgegraph.structure import singleton
    counts = {"n": 0, "args": []}

    class Config(metaclass=singleton.TrueSingleton):
        def __init__(self, x=None):
            counts["n"] += 1
            counts["args"].append(x)
            self.x = x
    Config(1)
    gc.collect()
    second = Config(2).x
    gc.collect()
    third = Config(3).x
    ok = (counts["n"] == 1) and (second == 1) and (third == 1)
    singleton.clear_true_singleton(Config)
    B.prove("[native replay] an instance the caller does not hold stays the class's instance until cleared "
            "(__init__ ran %d times, saw %r)" % (counts["n"], counts["args"]), ok)


def scenario(B, p):
    ops = []
    # start-up: an arbitrary subset of the classes is already instantiated (by real constructor calls)
    # (A, its subclass and the factory class; the other two are reached by the history itself)
    for ci in p["pre"]:
        if B.choice(f"pre{ci}", 2) == 1:
            ops.append(B.mktuple([0, ci, 0, B.int(f"pre{ci}.arg", 0, 3), None]))
    for s in range(p["depth"]):
        kind = B.choice(f"s{s}.kind", 3)
        if kind == 2:
            ops.append(B.mktuple([2, 0, 0, None, None]))
            continue
        ci = B.choice(f"s{s}.cls", 5)
        if kind == 1:
            ops.append(B.mktuple([1, ci, 0, None, None]))
            continue
        style = 1 + B.choice(f"s{s}.style", 2)
        ops.append(B.mktuple([0, ci, style, B.int(f"s{s}.a1", 0, 3), B.int(f"s{s}.a2", 0, 3)]))
    out = B.run(PROG, {"ops": B.mklist(ops), "probe": B.int("probe", 0, 3)})
    B.observe("raised", out["raised"])
    B.observe("count", out["COUNT"])
    B.reach("history")
    B.prove("no step raises", out["no_exc"])
    if p.get("native_gc"):
        B.native_only(native_unreferenced)
    B.prove("every construction returns the reference's instance (identity, exact class, __init__ once per period "
            "with the first call's arguments, per-class isolation)", out["ok"])
