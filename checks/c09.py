"""
C09  find_links returns exactly the links neighbors() would follow from a to b.
"""
from harness.common import make_vertices, make_links, symbolic_assoc_state, inv01, snapshot_assoc

ID = "C09"

MANIFEST = {
    "level": "Bounded model checking by symbolic execution of the real helpers.find_links, helpers.neighbors and "
             "explicit.unlink: link ends, per-vertex link order, the vertex pair (a is b allowed), the direction flag, "
             "unknown_handling and the filter (uninterpreted function of the link, or None) are SMT variables. Three "
             "clauses: (set) result == reference set; (size) |find_links(a,b)| == count of b in neighbors(a) under the "
             "corresponding settings whenever both return; (unlink) after unlink(a,b) find_links(a,b) is empty for "
             "every setting and find_links(c,d) is unchanged for every other pair.",
    "note": "Bounds: 3 vertices, 3 two-ended well-formed links per class multiset (2 for the unlink clause in the quick "
            "tier).  Trusted: pysym (validated per path on CPython), z3, the reference model.",
    "design_ref": "DESIGN.md 5 (C09)",
}

SETS_Q = [["DE", "UE", "TE"], ["DE", "DE", "SU"], ["TE", "SD", "UE"]]
SETS_T = SETS_Q + [["TE", "TE", "DE"], ["UE", "UE", "UE"], ["SD", "SD", "DE"]]
BOUNDS = {"quick": {"vertices": 3, "links": 3, "class_multisets": len(SETS_Q)},
          "thorough": {"vertices": 3, "links": 3, "class_multisets": len(SETS_T)}}
TIME_BUDGET = {"quick": 300, "thorough": 1200}
STUBS = ["filterfunc -> uninterpreted function ff(link): Bool"]
ASSUMPTIONS = [
    "unknown_handling ranges over the three documented constants; direction_sensitive is a bool",
    "links in the queried vertices' lists are two-ended with two vertex ends (Inv01 holds in the pre-state)",
    "'corresponding settings': direction_sensitive=True <-> DIR_SENS_FORWARD, False <-> DIR_SENS_ANY; filter lifted to lambda e, v: f(e)",
]
EXPLANATION = "real find_links vs reference set; size relation with neighbors(); effect of unlink on every pair"


def configs(tier):
    out = []
    for cs in (SETS_Q if tier == "quick" else SETS_T):
        out.append({"classes": cs, "clause": "set"})
        out.append({"classes": cs, "clause": "size"})
    # an edge class deriving from BOTH stock edge types: whatever neighbors() makes of it, find_links must agree
    out.append({"classes": ["BI", "DE"], "clause": "size"})
    for cs in ([["DE", "UE"], ["TE", "SD"], ["DE", "DE"]] if tier == "quick" else SETS_Q + [["DE", "UE"], ["TE", "SD"]]):
        out.append({"classes": cs, "clause": "unlink"})
    return out


def required_markers(tier):
    return ["set", "size:both", "unlink"]


PROG_SET = '''
from edgegraph.traversal.helpers import find_links
from refmodel import ref_find_links
try:
    got = find_links(a, b, ds, u, ff)
    gexc = None
except Exception as exc:
    got = None
    gexc = type(exc).__name__
want, wexc = ref_find_links(a, b, ds, u, ff)
same_exc = (gexc == wexc)
if got is None or want is None:
    same_val = (got is None) and (want is None)
else:
    same_val = (got == set(want))
    got = list(got)
'''

PROG_SIZE = '''
from edgegraph.traversal.helpers import find_links, neighbors
if ff is None:
    f2 = None
else:
    def f2(e, x):
        return ff(e)
both = True
try:
    fl = find_links(a, b, ds, u, ff)
    if ds:
        nb = neighbors(a, 0, u, f2)
    else:
        nb = neighbors(a, 1, u, f2)
except NotImplementedError:
    both = False
if both:
    ok = (len(fl) == nb.count(b))
else:
    ok = True
'''

PROG_UNLINK = '''
from edgegraph.traversal.helpers import find_links
from edgegraph.builder.explicit import unlink
before = find_links(c, d, False)
unlink(a, b, destroy)
empty = True
for ds in (True, False):
    for u in (0, 1, 2):
        empty = empty and (len(find_links(a, b, ds, u)) == 0) and (len(find_links(b, a, ds, u)) == 0)
after = find_links(c, d, False)
same_other = (before == after)
'''


def scenario(B, p):
    # one pool vertex is of a falsy Vertex subclass
    verts = make_vertices(B, 3, ["Vertex", "FalsyVertex", "Vertex"])
    links = make_links(B, p["classes"])
    n = len(links)
    symbolic_assoc_state(B, verts, links, n, n, two_ended_wellformed=True)
    for l in links:
        for e in B.items(B.get_field(l, "_vertices")):
            B.assume(B.not_(B.is_(e, None)), "ends are vertices")
    B.assume(inv01(B, verts, links), "Inv01(pre)")
    for k, val in snapshot_assoc(B, verts, links).items():
        B.observe(k, val)
    a = verts[0]
    b = B.ref("b", verts)
    if p["clause"] == "set":
        env = {"a": a, "b": b, "ds": B.bool("direction_sensitive"), "u": B.int("unknown_handling", 0, 2),
               "ff": B.uf("ff", [links], "bool") if B.choice("with_filter", 2) else None}
        out = B.run(PROG_SET, env)
        B.observe("gexc", out["gexc"])
        B.reach("set")
        B.prove("same exception class as the reference", out["same_exc"])
        B.prove("find_links == reference set", out["same_val"])
    elif p["clause"] == "size":
        env = {"a": a, "b": b, "ds": B.bool("direction_sensitive"), "u": B.int("unknown_handling", 0, 2),
               "ff": B.uf("ff", [links], "bool") if B.choice("with_filter", 2) else None}
        out = B.run(PROG_SIZE, env)
        if out["both"]:
            B.reach("size:both")
        B.prove("|find_links(a,b)| == count of b in neighbors(a)", out["ok"])
    else:
        c = B.ref("c", verts)
        d = B.ref("d", verts)
        # {c,d} is another pair than {a,b}
        same_pair = B.or_(B.and_(B.is_(c, a), B.is_(d, b)), B.and_(B.is_(c, b), B.is_(d, a)))
        B.assume(B.not_(same_pair), "other pair")
        out = B.run(PROG_UNLINK, {"a": a, "b": b, "c": c, "d": d, "destroy": B.bool("destroy")})
        B.reach("unlink")
        for k, val in snapshot_assoc(B, verts, links).items():
            B.observe("post:" + k, val)
        B.prove("after unlink(a,b): find_links(a,b) empty for every setting", out["empty"])
        B.prove("after unlink(a,b): links between other pairs still found", out["same_other"])
