"""
C03  Every mutation has exactly its documented effect and no other (frame property).

Checked as a relational step specification R(pre, call, post, result) from the abstraction of the
implementation's own pre-state (DESIGN 4.2.1): arbitrary valid pre-state, one symbolic call, every ordered
list of every object compared with the specified one.  History equivalence with a reference model follows
by induction on the history (the step relation is functional up to the stated freedoms).
"""
from harness.common import make_vertices, make_links, symbolic_assoc_state, inv01, inv02, snapshot_assoc, LINK_CLASS_MENU

ID = "C03"

MANIFEST = {
    "level": "Bounded model checking by symbolic execution of the real edge constructors, v1 / v2 assignment, "
             "explicit.link_from_to / link_directed / link_undirected (dontdup symbolic), explicit.unlink (destroy "
             "symbolic) and the four association mutators (Link.add_vertex / unlink_from, Vertex.add_to_link / "
             "remove_from_link; None arguments included): from an arbitrary pool state satisfying the association invariant with well-formed two-ended "
             "links (ends may be None; all list orders, elements and argument aliasings are SMT variables) one symbolic "
             "call; afterwards EVERY vertex's ordered links, EVERY link's ordered ends, every universe list and the "
             "return value must equal the reference step relation written from the statement. Because the relation "
             "holds from every valid state, the observable graph after any history equals the reference model's "
             "(by induction), within the pool bound.",
    "note": "Bounds: 3 vertices, 2 pool links (+1 created), lists <= 2 (quick) / 3 (thorough). Freedom left by the "
            "statement (not checked): position of a link in the list of a vertex that already was an end of it. A "
            "dontdup call must hand back the first joining link in the first vertex's own link order (the reference "
            "model's deterministic choice). Universe membership steps are C02's reference step. Trusted: pysym "
            "(validated per path on CPython), z3, the reference relations (80 lines).",
    "design_ref": "DESIGN.md 5 (C03), 4.2.1",
}

FAMILIES = ["ctor", "set_v1", "set_v2", "link_from_to", "link_directed", "link_undirected", "unlink",
            "unlink_from", "add_vertex", "add_to_link", "remove_from_link"]
ASSOC = FAMILIES[7:]
BOUNDS = {"quick": {"vertices": 3, "pool_links": 2, "pre_state_list_len": 2}, "thorough": {"vertices": 3, "pool_links": 2, "pre_state_list_len": 3}}
TIME_BUDGET = {"quick": 420, "thorough": 1200}
STUBS = ["uuid.uuid4 -> fresh distinct integer"]
ASSUMPTIONS = ["pre-state: association invariant (C01) and every pool link has exactly two ends (vertices or None)",
               "pool bound: 3 vertices, 2 links before the call"]
EXPLANATION = "one symbolic call from an arbitrary valid state against a relational step specification; frame included"


def configs(tier):
    K = 2 if tier == "quick" else 3
    out = []
    pools = [["DE", "UE"], ["TE", "SD"]] if tier == "quick" else [["DE", "UE"], ["TE", "SD"], ["DE", "DE"], ["UE", "TE"]]
    for pool in pools:
        for fam in FAMILIES:
            if tier == "quick" and pool != ["DE", "UE"] and fam in ["link_directed", "link_undirected", "ctor"] + ASSOC:
                continue
            out.append({"family": fam, "pool": pool, "K": K})
    # unlink when a joining link names a further vertex (attached through add_vertex / add_to_link)
    out.append({"family": "unlink", "pool": ["DE", "UE"], "K": K, "third_end": True})
    # ... and end assignment on such a link: only the assigned end changes, the further vertex stays named
    out.append({"family": "set_v1", "pool": ["DE", "UE"], "K": K, "third_end": True})
    out.append({"family": "set_v2", "pool": ["DE", "UE"], "K": K, "third_end": True})
    # dontdup with three pool links: the two vertices can list parallel links in different orders and have
    # link lists of different lengths (which joining link is handed back)
    out.append({"family": "link_directed", "pool": ["DE", "UE", "DE"], "K": 3, "dontdup_only": True})
    return out


def required_markers(tier):
    return ["step:" + f for f in FAMILIES] + ["dontdup:existing", "unlink:removed"]


PROG = '''
from edgegraph.builder.explicit import link_from_to, link_directed, link_undirected, unlink
from edgegraph.structure import DirectedEdge, UnDirectedEdge
from refmodel import spec_new_edge, spec_set_end, spec_unchanged, spec_unlink, joins, index_of
from refmodel import spec_unlink_from, spec_add_vertex, spec_add_to_link, spec_remove_from_link, first_joining

pre_l = [list(v._links) for v in pool]
pre_e = [list(l._vertices) for l in plinks]
pre_u = [list(v._universes) for v in pool]
pre_m = list(U._vertices)
raised = None
r = None
try:
    if kind == "ctor":
        r = LCLS(x, y)
    elif kind == "set_v1":
        l.v1 = x
    elif kind == "set_v2":
        l.v2 = x
    elif kind == "link_from_to":
        r = link_from_to(v, LCLS, w, dontdup=dd)
    elif kind == "link_directed":
        r = link_directed(v, w, dontdup=dd)
    elif kind == "link_undirected":
        r = link_undirected(v, w, dontdup=dd)
    elif kind == "unlink_from":
        l.unlink_from(x)
    elif kind == "add_vertex":
        l.add_vertex(x)
    elif kind == "add_to_link":
        v.add_to_link(l)
    elif kind == "remove_from_link":
        v.remove_from_link(l)
    else:
        r = unlink(v, w, destroy=dd)
except Exception as exc:
    raised = type(exc).__name__
ok = False
existing = False
removed = False
if raised is None:
    if kind == "ctor":
        ok = spec_new_edge(pool, plinks, pre_l, pre_e, r, x, y, LCLS)
    elif kind == "set_v1":
        ok = spec_set_end(pool, plinks, pre_l, pre_e, l, 0, x)
    elif kind == "set_v2":
        ok = spec_set_end(pool, plinks, pre_l, pre_e, l, 1, x)
    elif kind == "unlink_from":
        ok = spec_unlink_from(pool, plinks, pre_l, pre_e, l, x)
    elif kind == "add_vertex":
        ok = spec_add_vertex(pool, plinks, pre_l, pre_e, l, x)
    elif kind == "add_to_link":
        ok = spec_add_to_link(pool, plinks, pre_l, pre_e, v, l)
    elif kind == "remove_from_link":
        ok = spec_remove_from_link(pool, plinks, pre_l, pre_e, v, l)
    elif kind == "unlink":
        ok = spec_unlink(pool, plinks, pre_l, pre_e, v, w, dd, r)
        removed = len(v._links) < len(pre_l[index_of(pool, v)])
    else:
        if kind == "link_directed":
            cls = DirectedEdge
        elif kind == "link_undirected":
            cls = UnDirectedEdge
        else:
            cls = LCLS
        j = 0
        while j < len(plinks):
            if joins(pre_e[j], v, w) and (plinks[j] in pre_l[index_of(pool, v)]):
                existing = True
            j = j + 1
        if dd and existing:
            # creates nothing and returns the first link, in v's own link order, that joins the pair
            ok = spec_unchanged(pool, plinks, pre_l, pre_e) and (r is first_joining(pool, plinks, pre_l, pre_e, v, w))
        else:
            ok = spec_new_edge(pool, plinks, pre_l, pre_e, r, v, w, cls)
universes_ok = ([list(v._universes) for v in pool] == pre_u) and (list(U._vertices) == pre_m)
'''


def scenario(B, p):
    verts = make_vertices(B, 3)
    links = make_links(B, p["pool"])
    K = p["K"]
    symbolic_assoc_state(B, verts, links, K, K + 2, two_ended_wellformed=True)
    if p.get("third_end"):
        # the first pool link names a third vertex (position 2), as after e.add_vertex(c)
        ends = B.items(B.get_field(links[0], "_vertices"))
        B.set_field(links[0], "_vertices", B.mklist(ends + [B.ref("e0.third", verts)]))
    B.assume(inv01(B, verts, links), "Inv01(pre)")
    U = B.new("U", "Universe")
    B.set_field(U, "_vertices", B.reflist("U.members", verts, 3, 3))
    for v in verts:
        B.set_field(v, "_universes", B.reflist(B.label_of(v) + "._universes", [U], 1, 1))
    B.assume(inv02(B, verts, [U]), "Inv02(pre)")
    B.try_public_assoc(verts, links)
    fam = p["family"]
    env = {"pool": B.mklist(verts), "plinks": B.mklist(links), "U": U, "kind": fam,
           "x": None, "y": None, "l": None, "v": None, "w": None, "dd": None, "LCLS": None}
    if fam == "ctor":
        env["x"] = B.ref("x", verts, allow_none=True)
        env["y"] = B.ref("y", verts, allow_none=True)
        env["LCLS"] = B.cls(LINK_CLASS_MENU[["DE", "UE", "TE"][B.choice("cls", 3)]])
    elif fam in ("set_v1", "set_v2", "unlink_from", "add_vertex"):
        env["l"] = B.ref("l", links)
        env["x"] = B.ref("x", verts, allow_none=True)
    elif fam in ("add_to_link", "remove_from_link"):
        env["v"] = B.ref("v", verts)
        env["l"] = B.ref("l", links)
    else:
        env["v"] = B.ref("v", verts)
        env["w"] = B.ref("w", verts)
        env["dd"] = True if p.get("dontdup_only") else B.bool("flag")
        if fam == "link_from_to":
            env["LCLS"] = B.cls(LINK_CLASS_MENU[["DE", "UE", "TE"][B.choice("cls", 3)]])
    out = B.run(PROG, env)
    new = B.adopt(out["r"], "new") if fam not in ["unlink"] + ASSOC else []
    B.observe("raised", out["raised"])
    for k, val in snapshot_assoc(B, verts, links + new, [U]).items():
        B.observe(k, val)
    B.reach("step:" + fam)
    if B.truth(out["existing"]) and B.truth(env["dd"] if env["dd"] is not None else False):
        B.reach("dontdup:existing")
    if B.truth(out["removed"]):
        B.reach("unlink:removed")
    B.prove(f"{fam}: the call succeeds on a valid state", out["raised"] is None)
    B.prove(f"{fam}: every vertex's ordered links, every link's ends and the return value are exactly as specified", out["ok"])
    B.prove(f"{fam}: universe lists untouched", out["universes_ok"])
