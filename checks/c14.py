"""
C14  PlantUML source shows each member vertex and each internal link once, oriented.
"""
from harness.common import make_vertices, make_links, symbolic_assoc_state, inv01, snapshot_assoc

ID = "C14"

MANIFEST = {
    "level": "Bounded model checking by symbolic execution of the real render_to_plantuml_src, _one_vert_to_puml, "
             "_vertex_title, _one_link_to_puml, _resolve_options, _one_vert_to_skinparam: universe membership, link "
             "ends (self-loops, parallel and boundary links by aliasing) and per-vertex link order are symbolic; vertex "
             "and link classes range over subclasses incl. a multiple-inheritance vertex class; four option tables "
             "(default-like, per-subclass entries resolved by nearest class, a title format over an attribute, arrow "
             "ends drawn symbolically from a menu). The produced text is parsed back (declaration and relation lines) "
             "and compared with the reference: @startuml ... @enduml; one declaration per member with the nearest "
             "configured class's type and title; for every link with both ends members exactly one line "
             "'title(v1) <v1side>--<v2side> title(v2)' with its nearest configured class's arrow ends; no relation line "
             "that corresponds to no link; empty universe -> None.",
    "note": "Bounds: 3 vertices, 2 (quick) / 3 (thorough) links. A relation line for a link with one end outside the "
            "universe is allowed (the link exists). dir() is modelled without object's dunder names, so attribute lines "
            "are not compared; show_attrs is restricted to the attribute 'i'. render_to_image (sub-process) is outside. "
            "Trusted: pysym (validated per path on CPython), z3, the reference (40 lines).",
    "design_ref": "DESIGN.md 5 (C14)",
}

BOUNDS = {"quick": {"vertices": 3, "links": 2, "option_tables": 5}, "thorough": {"vertices": 3, "links": 3, "option_tables": 5}}
TIME_BUDGET = {"quick": 300, "thorough": 1200}
STUBS = ["dir(obj) -> instance fields + non-dunder class names", "re, datetime -> executed natively on concrete arguments",
         "hex(id(v)) -> distinct opaque text per object"]
ASSUMPTIONS = ["links are two-ended with two vertex ends", "vertex titles are pairwise distinct (distinct ids / distinct attribute i)"]
EXPLANATION = "renderer output parsed back and compared with the graph for every shape within the bound"

CLASSES_SRC = '''
from edgegraph.structure import Vertex

class Station(Vertex):
    pass

class Tagged(Vertex):
    pass

class Hub(Station, Tagged):
    """multiple inheritance: nearest configured class may be on a non-primary base"""
'''


def configs(tier):
    out = []
    sets = [["DE", "UE"], ["SD", "DE"]] if tier == "quick" else [["DE", "UE"], ["SD", "DE"], ["SU", "SD"], ["DE", "DE", "UE"], ["SD", "UE", "DE"]]
    for cs in sets:
        for table in ("default", "subclass", "titlefmt", "arrows", "mi"):
            if tier == "quick" and cs != ["DE", "UE"] and table in ("titlefmt", "mi"):
                continue
            if len(cs) > 2 and table not in ("default", "subclass"):
                continue
            out.append({"classes": cs, "table": table})
    return out


def required_markers(tier):
    return ["rendered", "empty"]


PROG = '''
from edgegraph.output.plantuml import render_to_plantuml_src
from edgegraph.structure import Vertex, DirectedEdge, UnDirectedEdge

def make_options():
    if table == "default":
        return {"skinparams": {"dpi": "300"},
                Vertex: {"type": "object", "stereotype_skinparams": {"BackgroundColor": "White"}, "show_attrs": ["i$"], "title_format": "$id"},
                DirectedEdge: {"v1side": "", "v2side": ">"}, UnDirectedEdge: {"v1side": "", "v2side": ""}}
    if table == "subclass":
        return {Vertex: {"type": "object", "show_attrs": ["i$"], "title_format": "$id"},
                SubVertex: {"type": "class", "show_attrs": ["i$"], "title_format": "S{i}"},
                DirectedEdge: {"v1side": "", "v2side": ">"}, SubDE: {"v1side": "<", "v2side": ""},
                UnDirectedEdge: {"v1side": "", "v2side": ""}, SubUE: {"v1side": "o", "v2side": "o"}}
    if table == "titlefmt":
        # a format that reads INTO an attribute ({i.real}) and nests a field in a format spec ({i.real:{i.imag}})
        return {Vertex: {"type": "object", "show_attrs": ["i$"], "title_format": "v{i.real}w{i.real:{i.imag}}"},
                DirectedEdge: {"v1side": "", "v2side": ">"}, UnDirectedEdge: {"v1side": "", "v2side": ""}}
    if table == "arrows":
        return {Vertex: {"type": "object", "show_attrs": ["i$"], "title_format": "$id"},
                DirectedEdge: {"v1side": ends[0], "v2side": ends[1]}, UnDirectedEdge: {"v1side": ends[2], "v2side": ends[3]}}
    return {Vertex: {"type": "object", "show_attrs": ["i$"], "title_format": "V{i}"},
            Tagged: {"type": "class", "show_attrs": ["i$"], "title_format": "T{i}"},
            DirectedEdge: {"v1side": "", "v2side": ">"}, UnDirectedEdge: {"v1side": "", "v2side": ""}}

def nearest(cls, options):
    for c in cls.__mro__:
        if c in options:
            return options[c]
    return None

def title(v, options):
    o = nearest(type(v), options)
    if o["title_format"] == "$id":
        return hex(id(v))
    return o["title_format"].format(i=v.i)

def relation(l, options):
    o = nearest(type(l), options)
    return title(l._vertices[0], options) + " " + o["v1side"] + "--" + o["v2side"] + " " + title(l._vertices[1], options)

raised = None
text = None
try:
    text = render_to_plantuml_src(U, make_options())
except Exception as exc:
    raised = type(exc).__name__
options = make_options()
members = list(U._vertices)
frame_ok = True
decl_ok = True
rel_ok = True
if len(members) == 0:
    frame_ok = (text is None) and (raised is None)
elif text is None:
    frame_ok = False
else:
    lines = [ln for ln in text.split("\\n") if ln != ""]
    frame_ok = (lines[0] == "@startuml") and (lines[-1] == "@enduml")
    rels = [ln for ln in lines if ("--" in ln) and not ("{" in ln)]
    for v in members:
        o = nearest(type(v), options)
        want = o["type"] + " " + title(v, options) + " <<" + type(v).__name__ + ">> {"
        decl_ok = decl_ok and (lines.count(want) == 1)
    ndecl = 0
    for ln in lines:
        if ln.endswith(">> {"):
            ndecl = ndecl + 1
    decl_ok = decl_ok and (ndecl == len(members))
    links = []
    for v in members:
        for l in v._links:
            if not (l in links):
                links.append(l)
    internal = []
    boundary = []
    for l in links:
        if (l._vertices[0] in members) and (l._vertices[1] in members):
            internal.append(relation(l, options))
        else:
            boundary.append(relation(l, options))
    for t in internal + rels:
        rel_ok = rel_ok and (internal.count(t) <= rels.count(t)) and (rels.count(t) <= internal.count(t) + boundary.count(t))
'''


def scenario(B, p):
    B.define(CLASSES_SRC)
    if p["table"] == "mi":
        vcls = ["Hub", "Station", "Tagged"]
    elif p["table"] == "subclass":
        vcls = ["Vertex", "SubVertex", "Vertex"]
    elif p["table"] == "default":
        vcls = ["Vertex", "SubVertex", "FalsyVertex"]
    else:
        vcls = ["Vertex", "SubVertex", "Vertex"]
    verts = make_vertices(B, 3, vcls)
    for i, v in enumerate(verts):
        B.set_field(v, "i", i + 1)
    links = make_links(B, p["classes"])
    n = len(links)
    symbolic_assoc_state(B, verts, links, n, n, two_ended_wellformed=True)
    for l in links:
        for e in B.items(B.get_field(l, "_vertices")):
            B.assume(B.not_(B.is_(e, None)), "ends are vertices")
    B.assume(inv01(B, verts, links), "Inv01(pre)")
    U = B.new("U", "Universe")
    B.set_field(U, "_vertices", B.reflist("U.members", verts, 3, 3))
    B.assume(B.nodup(B.get_field(U, "_vertices")), "members distinct")
    if p["table"] != "default":
        # the order of the declarations is not part of the statement: members in pool order (default table: any order)
        def rank(x):
            r = 0
            for i, vv in enumerate(verts):
                r = B.ite(B.is_(x, vv), i, r)
            return r
        B.assume(B.consecutive_all(B.get_field(U, "_vertices"), lambda x, y: B.lt(rank(x), rank(y))), "members in pool order")
    menu = ["", ">", "<", "o", "*"]
    if p["table"] == "arrows":
        # one symbolic end per edge class (5 x 5 combinations), the opposite ends fixed to other menu entries
        ends = [menu[B.choice("de_v1side", 5)], "*", "o", menu[B.choice("ue_v2side", 5)]]
    else:
        ends = ["", "", "", ""]
    env = {"U": U, "table": p["table"], "ends": B.mklist(ends), "SubVertex": B.cls("SubVertex"), "SubDE": B.cls("SubDE"),
           "SubUE": B.cls("SubUE"), "Tagged": B.cls("Tagged")}
    for k, val in snapshot_assoc(B, verts, links, [U]).items():
        B.observe(k, val)
    out = B.run(PROG, env)
    B.observe("raised", out["raised"])
    B.reach("empty" if out["text"] is None else "rendered")
    B.prove("render_to_plantuml_src does not raise", out["raised"] is None)
    B.prove("text framed by @startuml / @enduml; None for an empty universe", out["frame_ok"])
    B.prove("exactly one declaration per member, with the nearest configured class's type and title", out["decl_ok"])
    B.prove("each internal link appears as exactly one correctly oriented relation line; no line without a link", out["rel_ok"])
