"""
C20  randgraph always returns a universe of exactly `count` well-formed vertices.

Two harnesses (DESIGN 5, C20):

* ``full``     - the real randgraph -> load_adj_dict -> link_from_to for count 1..4
                 with EVERY answer of the random generator symbolic.
* ``adjdict``  - the real randgraph with load_adj_dict replaced by a recorder, for count 1..8 (quick) / 1..12:
                 proves the contract of the adjacency dictionary randgraph hands over (no exception from
                 random.sample, one key per vertex in order, values drawn without repetition from the vertices,
                 at least one when ensurelink).  One or two paths per configuration: nothing forks.
                 Together with C11 (load_adj_dict builds exactly the described graph) this gives the
                 structural clauses for those counts.
The sample size ``int(randint(..) * connectivity)`` is exact for the default connectivity (a table over the
randint range, floats evaluated natively); for a symbolic connectivity in [0, 1] it is over-approximated by
an arbitrary k with 0 <= k <= r, justified by a floating-point lemma discharged by z3 in this check.
"""
import time

ID = "C20"

MANIFEST = {
    "level": "Bounded model checking by symbolic execution of the real randgraph (and load_adj_dict / link_from_to) with "
             "the random module stubbed so that every randint / sample answer is an SMT variable constrained only by "
             "the documented contract - one query covers every state of the generator. Obligations: no exception; "
             "exactly count members carrying i = 0..count-1; every link of the requested type with both ends "
             "members; with ensurelink every vertex is v1 of a link; the result is a function of the RNG stream "
             "(same answers -> same graph). A QF_FP lemma (0 <= fl(r)*c <= fl(r) for every double c in [0,1] and "
             "32-bit r >= 1) justifies the abstraction of int(r * connectivity) for symbolic connectivity.",
    "note": "Bounds: full pipeline count 1..4; adjacency-dictionary contract count 1..8 / 1..12; "
            "edge types DirectedEdge, UnDirectedEdge, a user subclass of each, another TwoEndedLink class. Outside: NaN / negative / >1 "
            "connectivity, randint answers > 2^31. Trusted: pysym (validated per path on CPython with the RNG patched "
            "to the model's answers), z3 (incl. its floating-point theory).",
    "design_ref": "DESIGN.md 5 (C20)",
}

BOUNDS = {"quick": {"count_full": "1..4", "count_adjdict": "1..8"}, "thorough": {"count_full": "1..4 (all edge types)", "count_adjdict": "1..12 (default connectivity), 1..10 (symbolic connectivity)"}}
TIME_BUDGET = {"quick": 300, "thorough": 1200}
STUBS = ["random.randint(a,b) -> fresh symbolic int in [a,b]", "random.sample(pop,k) -> ValueError if k<0 or k>len(pop); "
         "else k symbolic positions, pairwise distinct", "int(randint*connectivity) for symbolic connectivity -> arbitrary k in [0, r] (FP lemma)",
         "adjdict mode: adjlist.load_adj_dict -> recorder"]
ASSUMPTIONS = ["connectivity is None or a double in [0,1]", "structural clauses for count > 4 rest on C11's contract for load_adj_dict"]
EXPLANATION = "every RNG answer symbolic; exact float table for the default connectivity; FP lemma for symbolic connectivity"


def configs(tier):
    out = []
    full = [1, 2, 3, 4]
    for c in full:
        for edge in (("DE",) if (tier == "quick" and c >= 3) else ("DE", "UE", "TE")):
            out.append({"mode": "full", "count": c, "edge": edge, "conn": "default"})
        if c <= 3:
            out.append({"mode": "full", "count": c, "edge": "DE", "conn": "sym"})
        if c == 2:
            # user-defined subclasses of the stock edge types are requested types like any other
            out.append({"mode": "full", "count": c, "edge": "SD", "conn": "default"})
            out.append({"mode": "full", "count": c, "edge": "SU", "conn": "default"})
            # ... also one whose constructor names its ends differently (edge types are called positionally)
            out.append({"mode": "full", "count": c, "edge": "RD", "conn": "default"})
    for c in range(1, 9 if tier == "quick" else 13):
        out.append({"mode": "adjdict", "count": c, "edge": "DE", "conn": "default"})
        if c <= 10:     # with a symbolic connectivity z3 needs > 60 s from count 12 on (an 'unknown' is never a pass)
            out.append({"mode": "adjdict", "count": c, "edge": "UE", "conn": "sym"})
    out.append({"mode": "lemma"})
    return out


def required_markers(tier):
    return ["full", "adjdict", "lemma"]


EDGE = {"DE": "DirectedEdge", "UE": "UnDirectedEdge", "TE": "OtherTE", "SD": "SubDE", "SU": "SubUE", "RD": "RoadEdge"}

CONN_SRC = '''
class Prod:
    def __init__(self, r):
        self.r = r

    def __int__(self):
        return pick(self.r)

class Conn:
    """an arbitrary double in [0, 1]; r * Conn() truncates to an arbitrary integer in [0, r]"""
    def __rmul__(self, r):
        return Prod(r)

    def __mul__(self, r):
        return Prod(r)

    # comparisons with the documented range ends are decided; any other comparison is outside this model
    def __ge__(self, x):
        if x <= 0:
            return True
        raise HarnessInterrupt("comparison outside the model of a symbolic connectivity")

    def __gt__(self, x):
        if x < 0:
            return True
        raise HarnessInterrupt("comparison outside the model of a symbolic connectivity")

    def __le__(self, x):
        if x >= 1:
            return True
        raise HarnessInterrupt("comparison outside the model of a symbolic connectivity")

    def __lt__(self, x):
        if x > 1:
            return True
        raise HarnessInterrupt("comparison outside the model of a symbolic connectivity")
'''

PROG_FULL = '''
from edgegraph.builder.randgraph import randgraph
from edgegraph.structure import Universe

def shape(uni):
    out = []
    vs = uni._vertices
    for v in vs:
        row = []
        for l in v._links:
            e = l._vertices
            row.append((type(l).__name__, vs.index(e[0]), vs.index(e[1])))
        out.append((v.i, row))
    return out

raised = None
g = None
try:
    g = randgraph(count=count, edge=edge, connectivity=conn, ensurelink=ensure)
except Exception as exc:
    raised = type(exc).__name__
members_ok = False
links_ok = False
ensure_ok = False
if g is not None:
    vs = g._vertices
    # the statement fixes the set of indices, not the order of the members (load_adj_dict adds in first-mention order)
    members_ok = isinstance(g, Universe) and (sorted([v.i for v in vs]) == list(range(count)))
    links_ok = True
    ensure_ok = True
    for v in vs:
        isv1 = False
        for l in v._links:
            e = l._vertices
            links_ok = links_ok and (type(l) is edge) and (len(e) == 2) and (e[0] in vs) and (e[1] in vs)
            if e[0] is v:
                isv1 = True
        if ensure:
            ensure_ok = ensure_ok and isv1
'''

PROG_AGAIN = '''
from edgegraph.builder.randgraph import randgraph
g2 = None
try:
    g2 = randgraph(count=count, edge=edge, connectivity=conn, ensurelink=ensure)
except Exception as exc:
    g2 = None
same = (g2 is not None) and (shape(g2) == shape(g))
'''

PROG_ADJ = '''
import edgegraph.builder.adjlist as AL
from edgegraph.builder.randgraph import randgraph
rec = []

def recorder(adj, linktype=None):
    rec.append((adj, linktype))
    return "sentinel"

saved = AL.load_adj_dict
AL.load_adj_dict = recorder
raised = None
r = None
try:
    r = randgraph(count=count, edge=edge, connectivity=conn, ensurelink=ensure)
except Exception as exc:
    raised = type(exc).__name__
AL.load_adj_dict = saved
called_ok = (raised is None) and (r == "sentinel") and (len(rec) == 1)
keys = []
values = []
lt = None
if called_ok:
    adj, lt = rec[0]
    keys = list(adj.keys())
    values = [adj[k] for k in keys]
keys_ok = called_ok and (lt is edge) and ([k.i for k in keys] == list(range(count)))
'''


def lemma(B):
    """QF_FP: for every double c in [0,1] and every integer r with 1 <= r < 2^31:
       0 <= fl(r) * c <= fl(r)   (round-to-nearest-even), hence 0 <= int(r*c) <= r."""
    if not B.sym:
        B.prove("FP lemma (decided by z3 on the symbolic side)", True)
        return
    import z3
    t0 = time.time()
    c = z3.FP("c", z3.Float64())
    r = z3.BitVec("r", 32)
    fr = z3.fpSignedToFP(z3.RNE(), r, z3.Float64())
    prod = z3.fpMul(z3.RNE(), fr, c)
    s = z3.Solver()
    s.set("timeout", 240000)
    s.add(z3.Not(z3.fpIsNaN(c)), z3.fpGEQ(c, z3.FPVal(0.0, z3.Float64())), z3.fpLEQ(c, z3.FPVal(1.0, z3.Float64())))
    s.add(r >= 1)
    s.add(z3.Not(z3.And(z3.fpGEQ(prod, z3.FPVal(0.0, z3.Float64())), z3.fpLEQ(prod, fr))))
    res = str(s.check())
    B.ctx.eng.stats.checks += 1
    B.ctx.eng.stats.solver_s += time.time() - t0
    if res == "unknown":
        from pysym.engine import Inconclusive
        raise Inconclusive("FP lemma: solver returned unknown")
    B.prove("FP lemma: 0 <= fl(r)*c <= fl(r) for every double c in [0,1], 32-bit r >= 1 (z3: unsat expected)", res == "unsat")


def native_seeded(B, count, edge):
    """[native replay] with the REAL generator: seeding the random module makes the result reproducible"""
    import random
    B.restore_patches()
    from edgegraph.builder.randgraph import randgraph
    cls = B.cls(EDGE[edge])

    def shape(u):
        vs = u.vertices
        return [(v.i, [(type(l).__name__, vs.index(l.v1), vs.index(l.v2)) for l in v.links]) for v in vs]
    ok = True
    for s in (0, 1, 7):
        random.seed(s)
        g1 = shape(randgraph(count=count, edge=cls))
        random.seed(s)
        g2 = shape(randgraph(count=count, edge=cls))
        ok = ok and (g1 == g2)
    B.prove("[native replay] random.seed(s) makes randgraph reproducible (real generator, seeds 0, 1, 7)", ok)


def scenario(B, p):
    if p["mode"] == "lemma":
        B.reach("lemma")
        lemma(B)
        return
    count = p["count"]
    ensure = B.bool("ensurelink")
    env = {"count": count, "edge": B.cls(EDGE[p["edge"]]), "ensure": ensure, "conn": None}
    if p["conn"] == "sym":
        ns = B.run(CONN_SRC, {"pick": B.oracle_ints("k", 2 * count), "HarnessInterrupt": B.cls("HarnessInterrupt")})
        env["conn"] = B.run("c = Conn()", ns)["c"]
    B.install_rng()
    if p["mode"] == "full":
        out = B.run(PROG_FULL, env)
        B.native_only(lambda NB: NB.prove("[native replay] every random answer is drawn from the random module's own "
                                         "generator (the one random.seed governs)", NB.rng_consumed()))
        B.observe("raised", out["raised"])
        B.reach("full")
        B.prove("randgraph does not raise", out["raised"] is None)
        B.prove("exactly count members carrying i = 0..count-1", out["members_ok"])
        B.prove("every link is of the requested type with both ends inside the universe", out["links_ok"])
        B.prove("with ensurelink every vertex is v1 of at least one link", out["ensure_ok"])
        if out["g"] is not None:
            B.observe("shape", B.run("s = shape(g)", out)["s"])
            if p["conn"] != "sym":
                B.rng_rewind()
                again = B.run(PROG_AGAIN, out)
                B.prove("the same RNG answers give the same graph (reproducible under seeding)", again["same"])
                B.native_only(lambda NB: native_seeded(NB, count, p["edge"]))
        return
    out = B.run(PROG_ADJ, env)
    B.observe("raised", out["raised"])
    B.reach("adjdict")
    B.prove("randgraph hands exactly one adjacency dict to load_adj_dict and does not raise", out["called_ok"])
    B.prove("one key per vertex, i = 0..count-1 in order, requested link type", out["keys_ok"])
    if B.truth(out["called_ok"]):
        keys = B.items(out["keys"])
        vals = B.items(out["values"])
        acc = []
        for v in vals:
            acc.append(B.nodup(v))
            acc.append(B.elem_all(v, lambda e: B.or_(*[B.is_(e, k) for k in keys])))
            acc.append(B.implies(ensure, B.le(1, B.len_(v))))
            acc.append(B.le(B.len_(v), count))
        B.prove("every value list: distinct vertices of the graph, at least one when ensurelink", B.and_(*acc))
