"""
C08  Each search returns the first match of its corresponding traversal, or None.
"""
from harness.common import make_vertices, make_links, symbolic_assoc_state, inv01, snapshot_assoc

ID = "C08"

MANIFEST = {
    "level": "Bounded model checking by symbolic execution of the real bfs, dfs_recursive, dfs_iterative: the graph "
             "(link ends, per-vertex link order, universe membership) is symbolic; every vertex independently lacks the "
             "attribute, carries None, or carries a boxed value whose interpreted __eq__ compares a symbolic integer "
             "payload (so equal-but-not-identical values are in scope); the sought value is None or another box; one "
             "vertex may be of a falsy Vertex subclass. Each search must return exactly the first vertex of the real "
             "corresponding traversal's list (same start, same universe) that has the attribute with an == value, else None.",
    "note": "Bounds: 3 vertices, 2 links fully symbolic (3 DirectedEdges with interchangeable links ordered; one four-vertex configuration anchored at the start), defaults "
            "FORWARD/ERROR as the searches hard-wire them. The oracle uses the real traversal list, whose own "
            "correctness is C06/C07. Searches whose traversal raises are not compared. Trusted: pysym (validated per "
            "path on CPython), z3.",
    "design_ref": "DESIGN.md 5 (C08)",
}

BOUNDS = {"quick": {"vertices": "3 (4 in one anchored configuration)", "links": "2-3", "payload_values": 2}, "thorough": {"vertices": 3, "links": "2-3", "payload_values": 3}}
TIME_BUDGET = {"quick": 400, "thorough": 1200}
STUBS = ["attribute values: harness class Box with interpreted __eq__ over a symbolic int payload"]
ASSUMPTIONS = ["attribute values' __eq__ is pure and total", "links are two-ended with two vertex ends",
               "the corresponding traversal's list is taken from the real traversal (C06/C07 decide its correctness)"]
EXPLANATION = "real searches vs first match of the real traversal listing, symbolic graph and attribute values"

BOX_SRC = '''
class Box:
    def __init__(self, n):
        self.n = n

    def __eq__(self, other):
        return isinstance(other, Box) and (self.n == other.n)

    def __hash__(self):
        return 7
'''


def configs(tier):
    out = []
    sets = [["DE", "UE"], ["DE", "DE"]] if tier == "quick" else [["DE", "UE"], ["DE", "DE"], ["UE", "UE"], ["SD", "SU"]]
    combos = [("none", None), ("none", 1), ("sym", 0)] if tier == "quick" else \
        [("none", None), ("none", 0), ("none", 1), ("sym", None), ("sym", 0), ("sym", 2)]
    for cs in sets:
        for uni, falsy in combos:
            out.append({"classes": cs, "uni": uni, "falsy": falsy, "sought": "box"})
            if tier != "quick" or uni == "none":
                out.append({"classes": cs, "uni": uni, "falsy": falsy, "sought": "none"})
    out.append({"classes": ["DE", "DE", "DE"], "uni": "none", "falsy": 2, "symbreak": True, "sought": "box"})
    # one vertex of a class that defines __eq__ only (unhashable): whatever traversal lists it, its search finds it
    out.append({"classes": ["DE", "UE"], "uni": "none", "falsy": None, "sought": "box", "unhash": 1})
    # four vertices: a way back to the start plus matches in two different branches (s - a, s -> b, a -> c)
    out.append({"classes": ["UE", "DE", "DE"], "uni": "none", "falsy": None, "symbreak": True, "sought": "box", "nverts": 4})
    if tier != "quick":
        out.append({"classes": ["DE", "DE", "DE"], "uni": "sym", "falsy": 1, "symbreak": True, "sought": "box"})
        out.append({"classes": ["DE", "DE", "DE"], "uni": "none", "falsy": None, "symbreak": True, "sought": "none"})
    return out


def required_markers(tier):
    return ["found", "notfound"]


PROG = '''
from edgegraph.traversal import breadthfirst, depthfirst

def first_match(order):
    for x in order:
        if hasattr(x, attr) and (getattr(x, attr) == val):
            return x
    return None

def trav(fn):
    try:
        return fn(uni, start)
    except Exception:
        return None

def search(fn):
    try:
        return fn(uni, start, attr, val), None
    except Exception as exc:
        return None, type(exc).__name__

tb = trav(breadthfirst.bft)
tr = trav(depthfirst.dft_recursive)
ti = trav(depthfirst.dft_iterative)
sb, sbx = search(breadthfirst.bfs)
sr, srx = search(depthfirst.dfs_recursive)
si, six = search(depthfirst.dfs_iterative)
ok_b = True
ok_r = True
ok_i = True
found = False
if tb is not None:
    wb = first_match(tb)
    found = wb is not None
    ok_b = (sbx is None) and (sb is wb)
if tr is not None:
    ok_r = (srx is None) and (sr is first_match(tr))
if ti is not None:
    ok_i = (six is None) and (si is first_match(ti))
'''


def scenario(B, p):
    B.define(BOX_SRC)
    nv = p.get("nverts", 3)
    vcls = ["Vertex"] * nv
    if p["falsy"] is not None:
        vcls[p["falsy"]] = "FalsyVertex"
    if p.get("unhash") is not None:
        vcls[p["unhash"]] = "UnhashVertex"
    verts = make_vertices(B, nv, vcls)
    links = make_links(B, p["classes"])
    n = len(links)
    symbolic_assoc_state(B, verts, links, n, n, two_ended_wellformed=True)
    for l in links:
        for e in B.items(B.get_field(l, "_vertices")):
            B.assume(B.not_(B.is_(e, None)), "ends are vertices")
    B.assume(inv01(B, verts, links), "Inv01(pre)")
    if nv == 4:
        # the first link is anchored at the start vertex; the start carries no attribute, the others a box
        B.assume(B.is_(B.items(B.get_field(links[0], "_vertices"))[0], verts[0]), "first link anchored at the start")
    if p.get("symbreak"):
        def rank(e):
            r = 0
            for i, v in enumerate(verts):
                r = B.ite(B.is_(e, v), i, r)
            return r
        for i in range(len(links) - 1):
            if p["classes"][i] != p["classes"][i + 1]:
                continue
            a1, a2 = B.items(B.get_field(links[i], "_vertices"))
            b1, b2 = B.items(B.get_field(links[i + 1], "_vertices"))
            ka = B.add(B.add(rank(a1), rank(a1)), B.add(rank(a1), rank(a2)))
            kb = B.add(B.add(rank(b1), rank(b1)), B.add(rank(b1), rank(b2)))
            B.assume(B.le(ka, kb), "symmetry breaking on interchangeable links")
    uni = None
    if p["uni"] == "sym":
        uni = B.new("U", "Universe")
        B.set_field(uni, "_vertices", B.reflist("U.members", verts, 3, 3))
        B.assume(B.nodup(B.get_field(uni, "_vertices")), "members distinct")
    # attributes.  sought None: every vertex lacks the attribute, carries None, or carries a box;
    # sought box: every vertex lacks the attribute or carries a box with a symbolic payload
    for v in verts:
        lab = B.label_of(v)
        if p["sought"] == "none":
            kind = B.choice(lab + ".attr", 3)
            if kind == 1:
                B.set_field(v, "k", None)
            elif kind == 2:
                B.set_field(v, "k", B.new("box_" + lab, "Box", 0))
        elif nv == 4:
            if v is not verts[0]:
                B.set_field(v, "k", B.new("box_" + lab, "Box", B.int(lab + ".payload", 0, 1)))
        else:
            if B.choice(lab + ".attr", 2) == 1:
                B.set_field(v, "k", B.new("box_" + lab, "Box", B.int(lab + ".payload", 0, 1)))
    if p["sought"] == "none":
        val = None
    else:
        val = B.new("sought", "Box", B.int("sought.payload", 0, 1))
    start = verts[0]
    for k, x in snapshot_assoc(B, verts, links, [uni] if uni is not None else []).items():
        B.observe(k, x)
    out = B.run(PROG, {"uni": uni, "start": start, "attr": "k", "val": val})
    for k in ("tb", "tr", "ti", "sb", "sr", "si", "sbx", "srx", "six"):
        B.observe(k, out[k])
    B.reach("found" if out["found"] else "notfound")
    B.prove("bfs returns the first match of bft's listing (or None)", out["ok_b"])
    B.prove("dfs_recursive returns the first match of dft_recursive's listing (or None)", out["ok_r"])
    B.prove("dfs_iterative returns the first match of dft_iterative's listing (or None)", out["ok_i"])
