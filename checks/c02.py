"""
C02  Universe membership is symmetric, ordered and duplicate-free after every history.
"""
from harness.common import inv02

ID = "C02"

MANIFEST = {
    "level": "Bounded model checking by symbolic execution of the real Universe.add_vertex/remove_vertex, "
             "Vertex.add_to_universe/remove_from_universe, Vertex(universes=...) and Universe(vertices=...): (IND) one "
             "symbolic call from an arbitrary pool state satisfying the membership invariant (universes may be members "
             "of universes and of themselves; all list lengths, elements and argument aliasings are SMT variables); (BMC) "
             "all histories of depth 2/3 from the constructed pool (also with two distinct vertices carrying one uid, and "
             "with two vertices constructed from one caller-owned universes= list). After every call: the invariant, plus the exact "
             "expected lists of a reference step (append on a new membership, order-preserving deletion, nothing else "
             "changes); removing a non-member must raise and change nothing.",
    "note": "Bounds: 2 plain vertices + 2 universes (+1 object created), lists <= 2 (quick) / 3 (thorough) before the "
            "step; constructor arguments are lists or one-shot generators of <= 3 references, duplicates allowed. "
            "BaseObject.universes is compared as a duplicate-free set (only Universe.vertices is stated to be ordered). "
            "Trusted: pysym (validated per path on CPython), z3, the reference step (20 lines).",
    "design_ref": "DESIGN.md 5 (C02)",
}

FAMILIES = ["add_vertex", "remove_vertex", "add_to_universe", "remove_from_universe", "vertex_ctor", "universe_ctor"]
BOUNDS = {"quick": {"vertices": 2, "universes": 2, "pre_state_list_len": 2, "bmc_depth": "2 (all families), 3 (membership calls)", "ctor_arg_len": "3 (Vertex) / 2 (Universe, BMC)"},
          "thorough": {"vertices": 2, "universes": 2, "pre_state_list_len": 3, "bmc_depth": 3, "ctor_arg_len": 3}}
TIME_BUDGET = {"quick": 400, "thorough": 1200}
STUBS = ["uuid.uuid4 -> fresh distinct integer"]
ASSUMPTIONS = ["pool bound: at most 2 plain vertices and 2 universes exist before the step (small-scope assumption)",
               "a counterexample to induction is reported only when its pre-state is reached through the public API"]
EXPLANATION = "inductive step + bounded histories over nested / self-containing universes against a reference step"


def configs(tier):
    K = 2 if tier == "quick" else 3
    out = [{"mode": "ind", "family": f, "K": K, "alen": 3 if (tier != "quick" or f == "vertex_ctor") else 2} for f in FAMILIES]
    out.append({"mode": "bmc", "depth": 2, "alen": 2})
    # depth 3 over the four membership calls only (add - remove - add again, from either side)
    out.append({"mode": "bmc", "depth": 3, "alen": 1, "families": FAMILIES[:4]})
    if tier != "quick":
        out.append({"mode": "bmc", "depth": 3, "alen": 1})
    # two distinct vertices that carry the same caller-supplied uid (uid= is unchecked; copies keep it)
    out.append({"mode": "bmc", "depth": 2, "alen": 1, "families": FAMILIES[:4], "same_uid": True})
    # two vertices constructed from ONE caller-owned `universes=` list object, then a membership call
    out.append({"mode": "shared_arg", "alen": 2})
    return out


def required_markers(tier):
    return ["ind:" + f for f in FAMILIES] + ["bmc:step", "raised-nonmember"]


PROG = '''
from edgegraph.structure import Vertex, Universe
from refmodel import ref_join, ref_leave, dedup, same_set, no_repeats

univ = [list(o.universes) for o in objs]
memb = []
for o in objs:
    if isinstance(o, Universe):
        memb.append(list(o.vertices))
    else:
        memb.append(None)
raised = None
r = None
try:
    if kind == "add_vertex":
        u.add_vertex(x)
    elif kind == "remove_vertex":
        u.remove_vertex(x)
    elif kind == "add_to_universe":
        x.add_to_universe(u)
    elif kind == "remove_from_universe":
        x.remove_from_universe(u)
    elif kind == "vertex_ctor":
        if as_gen:
            r = Vertex(universes=(t for t in arg))
        else:
            r = Vertex(universes=arg)
    elif kind == "universe_ctor":
        if as_gen:
            r = Universe(vertices=(t for t in arg))
        else:
            r = Universe(vertices=arg)
except Exception as exc:
    raised = type(exc).__name__

# ---- reference step
must_raise = False
objs2 = list(objs)
if kind == "add_vertex" or kind == "add_to_universe":
    ref_join(objs2, univ, memb, u, x)
elif kind == "remove_vertex" or kind == "remove_from_universe":
    must_raise = not ref_leave(objs2, univ, memb, u, x)
elif kind == "vertex_ctor" and r is not None:
    objs2.append(r)
    univ.append([])
    memb.append(None)
    for t in dedup(arg):
        ref_join(objs2, univ, memb, t, r)
elif kind == "universe_ctor" and r is not None:
    objs2.append(r)
    univ.append([])
    memb.append([])
    for t in dedup(arg):
        ref_join(objs2, univ, memb, r, t)

raise_ok = (raised is not None) == must_raise
lists_ok = True
i = 0
while i < len(objs2):
    o = objs2[i]
    lists_ok = lists_ok and same_set(list(o.universes), univ[i]) and no_repeats(list(o.universes))
    if memb[i] is not None:
        lists_ok = lists_ok and (list(o.vertices) == memb[i])
    i = i + 1
'''


def state_obs(B, objs, unis):
    obs = {}
    for o in objs:
        obs[B.label_of(o) + "._universes"] = B.get_public(o, "universes")
    for u in unis:
        obs[B.label_of(u) + "._members"] = B.get_public(u, "vertices")
    return obs


def do_step(B, fam, objs, unis, tag, alen=3):
    env = {"objs": B.mklist(objs), "kind": fam, "u": None, "x": None, "arg": None, "as_gen": False}
    if fam in ("add_vertex", "remove_vertex", "add_to_universe", "remove_from_universe"):
        env["u"] = B.ref(tag + "u", unis)
        env["x"] = B.ref(tag + "x", objs)
    elif fam == "vertex_ctor":
        env["arg"] = B.reflist(tag + "arg", unis, alen, alen)
        env["as_gen"] = B.choice(tag + "gen", 2) == 1
    else:
        env["arg"] = B.reflist(tag + "arg", objs, alen, alen)
        env["as_gen"] = B.choice(tag + "gen", 2) == 1
    out = B.run(PROG, env)
    return out


PROG_SHARED = '''
from edgegraph.structure import Vertex
home = list(arg)
va = Vertex(universes=home)
vb = Vertex(universes=home)
'''


def scenario(B, p):
    if p.get("same_uid"):
        verts = [B.new("a", "Vertex", uid=7), B.new("b", "Vertex", uid=7)]
    else:
        verts = [B.new("a", "Vertex"), B.new("b", "Vertex")]
    unis = [B.new("U0", "Universe"), B.new("U1", "Universe")]
    objs = verts + unis
    if p["mode"] == "shared_arg":
        out = B.run(PROG_SHARED, {"arg": B.reflist("arg", unis, p["alen"], p["alen"])})
        objs = objs + [B.label(out["va"], "va"), B.label(out["vb"], "vb")]
        B.prove("Inv02 after two constructions from one list", inv02(B, objs, unis, public=True))
        fam = FAMILIES[B.choice("s0.op", 4)]
        out = do_step(B, fam, objs, unis, "s0.", 1)
        B.observe("raised", out["raised"])
        for k, v in state_obs(B, objs, unis).items():
            B.observe(k, v)
        B.reach("bmc:step")
        B.prove(f"Inv02 after {fam} (vertices built from one shared list)", inv02(B, objs, unis, public=True))
        B.prove(f"raises exactly when a non-member is removed ({fam}, shared list)", out["raise_ok"])
        B.prove(f"membership lists equal the reference step's ({fam}, shared list)", out["lists_ok"])
        return
    if p["mode"] == "ind":
        K = p["K"]
        for o in objs:
            B.set_field(o, "_universes", B.reflist(B.label_of(o) + "._universes", unis, K, K + 2))
        for u in unis:
            B.set_field(u, "_vertices", B.reflist(B.label_of(u) + "._members", objs, K, K + 2))
        B.assume(inv02(B, objs, unis), "Inv02(pre)")
        B.try_public_membership(objs, unis)
        out = do_step(B, p["family"], objs, unis, "s0.", p["alen"])
        new = B.adopt(out["r"], "new")
        objs2 = objs + new
        unis2 = unis + (new if p["family"] == "universe_ctor" else [])
        B.observe("raised", out["raised"])
        for k, v in state_obs(B, objs2, unis2).items():
            B.observe(k, v)
        B.reach("ind:" + p["family"])
        if out["must_raise"]:
            B.reach("raised-nonmember")
        B.prove("Inv02 after " + p["family"], inv02(B, objs2, unis2, public=True))
        B.prove("raises exactly when a non-member is removed (" + p["family"] + ")", out["raise_ok"])
        B.prove("every membership list equals the reference step's (" + p["family"] + ")", out["lists_ok"])
        return
    fams = p.get("families", FAMILIES)
    for step in range(p["depth"]):
        fam = fams[B.choice(f"s{step}.op", len(fams))]
        out = do_step(B, fam, objs, unis, f"s{step}.", p["alen"])
        new = B.adopt(out["r"], f"new{step}")
        objs = objs + new
        if fam == "universe_ctor":
            unis = unis + new
        B.observe(f"raised{step}", out["raised"])
        B.reach("bmc:step")
        B.prove(f"Inv02 after step {step + 1} ({fam})", inv02(B, objs, unis, public=True))
        B.prove(f"raises exactly when a non-member is removed, step {step + 1} ({fam})", out["raise_ok"])
        B.prove(f"membership lists equal the reference step's, step {step + 1} ({fam})", out["lists_ok"])
    for k, v in state_obs(B, objs, unis).items():
        B.observe(k, v)
