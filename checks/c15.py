"""
C15  PyVis export: one node per member vertex, only real edges, correctly directed.
"""
from harness.common import make_vertices, make_links, symbolic_assoc_state, inv01, snapshot_assoc

ID = "C15"

MANIFEST = {
    "level": "Bounded model checking by symbolic execution of the real make_pyvis_net / pyvis_render_customizable on top of "
             "a model of pyvis.network.Network: universe membership and order, link ends (links leaving the universe, "
             "self-loops and parallel edges by aliasing), per-vertex link order are symbolic; rvfunc / refunc are "
             "uninterpreted functions -> String or None; one vertex outside the universe may carry the exporter's "
             "temporary attribute name with an arbitrary index. The network must have exactly the nodes 0..n-1 in "
             "universe order labelled by rvfunc; arrowed edges i->j in number equal to the directed links from member i "
             "to member j; every arrow-less edge backed by a non-directed link; every link between two members joined by "
             "at least one edge; nothing refers to a non-member.",
    "note": "Bounds: 3 vertices, 2 (quick) / 3 (thorough) links. The Network model was written from pyvis 0.3.2 and is "
            "compared with the real class on every explored path (witness replay). Labels are assumed non-empty (pyvis "
            "replaces an empty label by the node id). Trusted: pysym, z3, the validated Network model.",
    "design_ref": "DESIGN.md 5 (C15)",
}

BOUNDS = {"quick": {"vertices": 3, "links": 2}, "thorough": {"vertices": 3, "links": 3}}
TIME_BUDGET = {"quick": 300, "thorough": 1200}
STUBS = ["pyvis.network.Network -> model class harness/pyvis_stub.py (validated against the real class per path)",
         "rvfunc / refunc -> uninterpreted functions Vertex/Link -> String", "hex(id(v)) -> distinct opaque text per object"]
ASSUMPTIONS = ["rvfunc labels are non-empty strings", "links are two-ended; ends are vertices or None"]
EXPLANATION = "exporter vs reference conditions on nodes / edges over a symbolic universe and surrounding graph"


def configs(tier):
    out = []
    sets = [["DE", "UE"], ["DE", "DE"], ["SD", "TE"]] if tier == "quick" else \
        [["DE", "UE"], ["DE", "DE"], ["SD", "TE"], ["UE", "UE"], ["DE", "UE", "DE"], ["UE", "DE", "TE"]]
    for cs in sets:
        for fn in ("none", "uf"):
            if len(cs) > 2 and (fn == "uf" or cs != ["DE", "UE", "DE"]):
                continue          # one three-link configuration (they are ~30 times the size of a two-link one)
            out.append({"classes": cs, "funcs": fn, "entry": "make"})
    out.append({"classes": ["DE", "UE"], "funcs": "none", "entry": "customizable"})
    out.append({"classes": ["DE", "UE"], "funcs": "none", "entry": "make", "stale_attr": True})
    # distinct vertices (members and non-members) that carry one and the same uid
    out.append({"classes": ["DE", "UE"], "funcs": "none", "entry": "make", "same_uid": True})
    return out


def required_markers(tier):
    return ["exported"]


PROG = '''
from edgegraph.output.pyvis import make_pyvis_net, pyvis_render_customizable
from edgegraph.structure import DirectedEdge
raised = None
net = None
try:
    if entry == "make":
        net = make_pyvis_net(U, rvfunc=rv, refunc=re)
    else:
        net = pyvis_render_customizable(U, rvfunc=rv, refunc=re)
except Exception as exc:
    raised = type(exc).__name__
members = list(U._vertices)
n = len(members)
nodes_ok = False
arrows_ok = False
plain_ok = False
cover_ok = False
edges = []
if net is not None:
    nodes_ok = list(net.get_nodes()) == list(range(n))
    if nodes_ok and (rv is not None):
        i = 0
        while i < n:
            nodes_ok = nodes_ok and (net.get_node(i)["label"] == rv(members[i]))
            i = i + 1
    links = []
    for v in members:
        for l in v._links:
            if not (l in links):
                links.append(l)
    edges = [(e["from"], e["to"], ("arrows" in e)) for e in net.get_edges()]
    arrows_ok = True
    plain_ok = True
    cover_ok = True
    for e in edges:
        arrows_ok = arrows_ok and (0 <= e[0]) and (e[0] < n) and (0 <= e[1]) and (e[1] < n)
    if arrows_ok:
        i = 0
        while i < n:
            j = 0
            while j < n:
                nde = 0
                nother = 0
                for l in links:
                    a = l._vertices[0]
                    b = l._vertices[1]
                    if isinstance(l, DirectedEdge):
                        if (a is members[i]) and (b is members[j]):
                            nde = nde + 1
                    elif ((a is members[i]) and (b is members[j])) or ((a is members[j]) and (b is members[i])):
                        nother = nother + 1
                narrow = 0
                nplain = 0
                for e in edges:
                    if e[2] and e[0] == i and e[1] == j:
                        narrow = narrow + 1
                    if (not e[2]) and ((e[0] == i and e[1] == j) or (e[0] == j and e[1] == i)):
                        nplain = nplain + 1
                arrows_ok = arrows_ok and (narrow == nde)
                if nplain > 0:
                    plain_ok = plain_ok and (nother > 0)
                # every link joining members i and j leaves the pair joined by at least one edge
                back = 0
                for l in links:
                    a = l._vertices[0]
                    b = l._vertices[1]
                    if isinstance(l, DirectedEdge) and (a is members[j]) and (b is members[i]):
                        back = back + 1
                joined = 0
                for e in edges:
                    if (e[0] == i and e[1] == j) or (e[0] == j and e[1] == i):
                        joined = joined + 1
                if (nde + nother + back) > 0:
                    cover_ok = cover_ok and (joined > 0)
                j = j + 1
            i = i + 1
'''


def scenario(B, p):
    verts = make_vertices(B, 3, uid=7 if p.get("same_uid") else None)
    links = make_links(B, p["classes"])
    n = len(links)
    symbolic_assoc_state(B, verts, links, n, n, two_ended_wellformed=True)
    B.assume(inv01(B, verts, links), "Inv01(pre)")
    U = B.new("U", "Universe")
    B.set_field(U, "_vertices", B.reflist("U.members", verts, 3, 3))
    B.assume(B.nodup(B.get_field(U, "_vertices")), "members distinct")
    rv = re = None
    if p["funcs"] == "uf":
        rv = B.uf("rvfunc", [verts], "str")
        re = B.uf("refunc", [links], "str")
        for v in verts:
            lab = B.run("k = f(v)", {"f": rv, "v": v})["k"]
            B.assume(B.not_(B.eq(lab, "")), "labels non-empty")
    # vertices already carry unrelated attributes
    B.set_field(verts[0], "colour", "red")
    B.set_field(verts[2], "i", 7)
    if p.get("stale_attr"):
        # a vertex OUTSIDE the universe carries the exporter's temporary attribute name (e.g. left behind earlier)
        B.set_field(verts[2], "__make_pyvis_net_i", B.int("stale_index", 0, 2))
        B.assume(B.not_(B.contains(B.get_field(U, "_vertices"), verts[2])), "c is not a member")
    for k, val in snapshot_assoc(B, verts, links, [U]).items():
        B.observe(k, val)
    out = B.run(PROG, {"U": U, "rv": rv, "re": re, "entry": p["entry"]})
    B.observe("raised", out["raised"])
    B.observe("edges", out["edges"])
    B.reach("exported")
    B.prove("the exporter does not raise", out["raised"] is None)
    B.prove("exactly the nodes 0..n-1 in universe order, labelled by rvfunc", out["nodes_ok"])
    if not p.get("stale_attr"):
        B.prove("arrowed edges i->j: one per directed link from member i to member j, none else; ids are members", out["arrows_ok"])
        B.prove("every arrow-less edge is backed by a link that is not a directed edge", out["plain_ok"])
    B.prove("every link between two members leaves its pair of nodes joined by at least one edge", out["cover_ok"])
