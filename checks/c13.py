"""
C13  Read-only operations never change the graph, even when a user callback raises.
"""
from harness.common import make_vertices, make_links, symbolic_assoc_state, inv01, inv02, snapshot_assoc

ID = "C13"

MANIFEST = {
    "level": "Bounded model checking by symbolic execution of every read-only entry point (neighbors, find_links, bft / "
             "dft_recursive / dft_iterative, bfs / dfs_recursive / dfs_iterative, basic_render, render_to_plantuml_src "
             "incl. user_render_func, make_pyvis_net, pyvis_render_customizable, and nrpickler.dump - the real lazy pickler over an "
             "abstract base pickler that follows the instance protocol, __getstate__ included) over a symbolic graph and universe, "
             "caching on or off, with every user call-back an uninterpreted function that raises at its k-th invocation "
             "for a SYMBOLIC k (so every fault point, and no fault, are covered by one query; the fault is an Exception "
             "subclass or, in extra configurations, a BaseException that is not one). Around a fault-free call "
             "and around the faulty call the snapshot of every pool object (ordered links / ends / members / universes "
             "and the set of attribute names with the values of all non-cache attributes) must be unchanged; the call "
             "repeated with the well-behaved call-back must return the fault-free answer; afterwards every cached "
             "neighbors() answer must equal the uncached one.",
    "note": "Bounds: 3 vertices, 2 links (fully symbolic ends and orders), 1 universe; the traversals with call-backs and basic_render(sort=) run on one (quick) / two (thorough) fixed 3-cycles (the fault point, the call-back's answers, the universe and the cache flag stay symbolic). The contents of the per-vertex memo and the class-level statistics "
            "are not observable state; the set of attribute names is. nrpickler.dumps differs from dump only by the BytesIO it writes to (real byte streams: C10's "
            "native replays). Trusted: pysym (validated per path on CPython), z3, the pyvis Network model (validated per path).",
    "design_ref": "DESIGN.md 5 (C13)",
}

ENTRIES = ["neighbors", "find_links", "bft", "dft_recursive", "dft_iterative", "searches", "basic_render", "plantuml",
           "pyvis", "pyvis_customizable"]
BOUNDS = {"quick": {"vertices": 3, "links": 2}, "thorough": {"vertices": 3, "links": "2-3"}}
TIME_BUDGET = {"quick": 480, "thorough": 1200}
STUBS = ["call-backs -> uninterpreted functions raising HarnessFault at a symbolic invocation index",
         "pyvis.network.Network -> validated model", "re / datetime -> executed natively on concrete arguments"]
ASSUMPTIONS = ["call-backs do not mutate the graph themselves"]
EXPLANATION = "snapshot equality around fault-free and faulty calls; repeatability; cache coherence afterwards"


def configs(tier):
    out = []
    for e in ENTRIES:
        for cb in {"neighbors": ["ff"], "find_links": ["ff"], "bft": ["via", "result"], "dft_recursive": ["via", "result"],
                   "dft_iterative": ["via", "result"], "searches": ["none"], "basic_render": ["rfunc", "sort"],
                   "plantuml": ["urf", "none"], "pyvis": ["rvfunc", "refunc"], "pyvis_customizable": ["refunc"]}[e]:
            heavy = e in ("bft", "dft_recursive", "dft_iterative") or (e == "basic_render" and cb == "sort")
            out.append({"entry": e, "callback": cb, "classes": ["DE", "UE", "DE"] if heavy else ["DE", "UE"],
                        "graph": "fixed" if heavy else "symbolic"})
            if heavy and tier != "quick":
                # a second fixed shape in the thorough tier
                out.append({"entry": e, "callback": cb, "classes": ["UE", "DE", "UE"], "graph": "fixed"})
    # nrpickler.dump of a vertex of the symbolic graph (the real lazy pickler over an abstract base pickler)
    out.append({"entry": "dumps", "callback": "none", "classes": ["DE", "UE"], "graph": "symbolic"})
    # faults that are not Exception subclasses (KeyboardInterrupt-like), on one fixed graph
    for e, cb in (("neighbors", "ff"), ("bft", "via"), ("basic_render", "rfunc"), ("plantuml", "urf"), ("pyvis", "rvfunc"), ("pyvis", "refunc")):
        out.append({"entry": e, "callback": cb, "classes": ["DE", "UE", "DE"], "graph": "fixed", "fault_class": "HarnessInterrupt"})
    # a link that lost one end through the one-sided API (b.remove_from_link(e)): queries may raise, nothing may change
    for e in ("neighbors", "find_links", "bft", "searches", "basic_render", "plantuml", "pyvis"):
        out.append({"entry": e, "callback": "none", "classes": ["DE", "UE"], "graph": "halfopen"})
    if tier != "quick":
        for e in ("neighbors", "bft", "basic_render", "pyvis"):
            out.append({"entry": e, "callback": {"neighbors": "ff", "bft": "via", "basic_render": "sort", "pyvis": "rvfunc"}[e],
                        "classes": ["DE", "DE", "UE"], "graph": "fixed"})
    return out


def required_markers(tier):
    return ["fault raised", "no fault"]


# An abstract base pickler over REAL objects (what pickle.Pickler.save does, reduced to the order of saves /
# memoisations and to the instance protocol: class, then the state handed out by __getstate__).  The real
# _NonrecursivePickler of /repo runs on top of it, so nrpickler.dump visits the real graph symbolically.
DILL_REAL_SRC = '''
class Pickler:
    def __init__(self, file, protocol=None, byref=None, fmode=None, recurse=None, **kw):
        self.proto = 4 if protocol is None else protocol
        self.memo = {}
        self.write = file.write

    def save(self, obj, save_persistent_id=None):
        if obj is None or isinstance(obj, (bool, int, str)):
            self.write(("ATOM", obj))
            return
        if id(obj) in self.memo:
            self.write(("GET", self.memo[id(obj)][0]))
            return
        if isinstance(obj, type):
            self.write(("GLOBAL", obj.__name__))
            self.memoize(obj)
            return
        if isinstance(obj, tuple):
            for x in obj:
                self.save(x)
            if id(obj) in self.memo:
                self.write(("POPGET", self.memo[id(obj)][0]))
            else:
                self.write(("TUPLE", len(obj)))
                self.memoize(obj)
            return
        if isinstance(obj, list):
            self.write(("EMPTY_LIST",))
            self.memoize(obj)
            for x in list(obj):
                self.save(x)
            self.write(("APPENDS",))
            return
        if isinstance(obj, dict):
            self.write(("EMPTY_DICT",))
            self.memoize(obj)
            for k in list(obj):
                self.save(k)
                self.save(obj[k])
            self.write(("SETITEMS",))
            return
        # an instance: its class, then the state its class hands out
        self.save(type(obj))
        self.write(("NEWOBJ",))
        self.memoize(obj)
        self.save(obj.__getstate__())
        self.write(("BUILD",))

    def memoize(self, obj):
        assert id(obj) not in self.memo
        idx = len(self.memo)
        self.write(("PUT", idx))
        self.memo[id(obj)] = (idx, obj)

    def dump(self, obj):
        self.write(("PROTO", self.proto))
        self.save(obj)
        self.write(("STOP",))

class File:
    def __init__(self):
        self.tokens = []

    def write(self, tok):
        # the lazy pickler writes the protocol header and the final STOP as bytes itself
        self.tokens.append(tok[0] if isinstance(tok, tuple) else "BYTES")
'''

PROG = '''
from edgegraph.structure import Vertex
from edgegraph.traversal.helpers import neighbors, find_links
from edgegraph.traversal import breadthfirst, depthfirst
from edgegraph.output.plaintext import basic_render
from edgegraph.output import plantuml
from edgegraph.output.pyvis import make_pyvis_net, pyvis_render_customizable

HIDDEN = ("_Vertex__qa_nb_cache",)

def snap():
    out = []
    for o in objs:
        names = sorted([k for k in o.__dict__ if not (k in HIDDEN)])
        vals = []
        for k in names:
            x = o.__dict__[k]
            if isinstance(x, list):
                vals.append(list(x))
            else:
                vals.append(x)
        out.append((names, vals))
    return out

def netview(net):
    return ([net.get_node(i)["label"] for i in net.get_nodes()], [(e["from"], e["to"], ("arrows" in e), e.get("title")) for e in net.get_edges()])

def call(cb):
    try:
        if entry == "neighbors":
            return neighbors(v, d, 1, cb), None
        if entry == "find_links":
            return list(find_links(v, w, True, 1, cb)), None
        if entry == "bft" or entry == "dft_recursive" or entry == "dft_iterative":
            fn = {"bft": breadthfirst.bft, "dft_recursive": depthfirst.dft_recursive, "dft_iterative": depthfirst.dft_iterative}[entry]
            if which == "via":
                return fn(uni, v, direction_sensitive=d, unknown_handling=1, ff_via=cb), None
            return fn(uni, v, direction_sensitive=d, unknown_handling=1, ff_result=cb), None
        if entry == "searches":
            return [breadthfirst.bfs(uni, v, "i", 7), depthfirst.dfs_recursive(uni, v, "i", 7), depthfirst.dfs_iterative(uni, v, "i", 7)], None
        if entry == "basic_render":
            if which == "rfunc":
                return basic_render(U, rfunc=cb), None
            return basic_render(U, sort=cb), None
        if entry == "plantuml":
            if which == "urf":
                def urf(vertex, options):
                    return cb(vertex)
                opts = {Vertex: {"type": "object", "show_attrs": ["i"], "title_format": "$id", "user_render_func": urf},
                        plantuml.DirectedEdge: {"v1side": "", "v2side": ">"}, plantuml.UnDirectedEdge: {"v1side": "", "v2side": ""}}
            else:
                opts = {Vertex: {"type": "object", "show_attrs": ["i"], "title_format": "$id"},
                        plantuml.DirectedEdge: {"v1side": "", "v2side": ">"}, plantuml.UnDirectedEdge: {"v1side": "", "v2side": ""}}
            return plantuml.render_to_plantuml_src(U, opts), None
        if entry == "dumps":
            f = File()
            nrpickler.dump(v, f)
            return f.tokens, None
        if entry == "pyvis":
            if which == "rvfunc":
                return netview(make_pyvis_net(U, rvfunc=cb)), None
            return netview(make_pyvis_net(U, refunc=cb)), None
        return netview(pyvis_render_customizable(U, refunc=cb)), None
    except BaseException as exc:
        if type(exc).__name__ == "HarnessError":
            raise
        return None, type(exc).__name__

Vertex.NEIGHBOR_CACHING = caching
if entry == "dumps":
    # a vertex that has answered a query before (its cache holds an entry when caching is on)
    neighbors(v)
s0 = snap()
base = call(cb_ok)
s1 = snap()
faulty = call(cb_fault)
s2 = snap()
again = call(cb_ok)
s3 = snap()
fault_seen = (faulty[1] == "HarnessFault") or (faulty[1] == "HarnessInterrupt")
clean_ok = (s1 == s0)
fault_ok = (s2 == s0) and (s3 == s0)
again_ok = (again == base)
Vertex.NEIGHBOR_CACHING = True
def nb2(x):
    out = []
    for dd in (0, 1):
        try:
            out.append((neighbors(x, dd), None))
        except Exception as exc:
            out.append((None, type(exc).__name__))
    return out
c1 = nb2(w)
Vertex.NEIGHBOR_CACHING = False
c2 = nb2(w)
coherent = (c1 == c2)
'''


def scenario(B, p):
    verts = make_vertices(B, 3)
    links = make_links(B, p["classes"])
    n = len(links)
    if p.get("graph") == "halfopen":
        # e0 joins a and the symbolic x; e1 = (b, y) lost its second end: b.remove_from... on the far side
        B.run("l.v1 = a\nl.v2 = x\nm.v1 = b\nm.v2 = y\ny.remove_from_link(m)",
              {"l": links[0], "m": links[1], "a": verts[0], "b": verts[1], "x": B.ref("x", verts), "y": B.ref("y", [verts[0], verts[2]])})
    elif p.get("graph") == "fixed":
        # one fixed shape (a cycle a -> b -- c -> a ...): the quantifier of interest here is the fault point
        for i, l in enumerate(links):
            B.run("l.v1 = x\nl.v2 = y", {"l": l, "x": verts[i % 3], "y": verts[(i + 1) % 3]})
    else:
        symbolic_assoc_state(B, verts, links, n, n + 1, two_ended_wellformed=True)
        for l in links:
            for e in B.items(B.get_field(l, "_vertices")):
                B.assume(B.not_(B.is_(e, None)), "ends are vertices")
        B.assume(inv01(B, verts, links), "Inv01(pre)")
    U = B.new("U", "Universe")
    B.set_field(U, "_vertices", B.reflist("U.members", verts, 3, 4))
    # members in pool order (the order of the universe is immaterial to this property)
    ms = B.get_field(U, "_vertices")

    def rank(x):
        r = 0
        for i, vv in enumerate(verts):
            r = B.ite(B.is_(x, vv), i, r)
        return r
    B.assume(B.consecutive_all(ms, lambda x, y: B.lt(rank(x), rank(y))), "members in pool order")
    for v in verts:
        B.set_field(v, "_universes", B.reflist(B.label_of(v) + "._universes", [U], 1, 2))
    B.assume(inv02(B, verts, [U]), "Inv02(pre)")
    B.set_field(verts[1], "i", 7)
    cbk = p["callback"]
    e = p["entry"]
    if cbk == "none":
        cb_fault = cb_ok = None
    else:
        ret = "bool"
        doms = [verts]
        if cbk in ("ff", "via") and e != "find_links":
            doms = [links, verts]
        if e == "find_links":
            doms = [links]
        if cbk in ("rfunc", "urf", "rvfunc"):
            ret = "str"
        if cbk == "refunc":
            ret, doms = "str", [links]
        if cbk == "sort":
            ret = "int"
        # the fault is an Exception subclass or a BaseException that is not one (KeyboardInterrupt-like)
        fcls = p.get("fault_class", "HarnessFault")
        cb_fault = B.uf("cb", doms, ret, fault=True, fault_cls=fcls)
        cb_ok = B.uf_twin(cb_fault)
        if ret == "str":
            for x in doms[0]:
                lab = B.run("k = f(x)", {"f": cb_ok, "x": x})["k"]
                B.assume(B.not_(B.eq(lab, "")), "labels non-empty")
    env = {"objs": B.mklist(verts + links + [U]), "pool": B.mklist(verts), "v": verts[0], "w": B.ref("w", verts), "U": U,
           "uni": (U if B.choice("with_universe", 2) else None) if e in ("bft", "dft_recursive", "dft_iterative", "searches") else U,
           "d": B.int("direction", 0, 2) if e == "neighbors" else 1,
           "entry": e, "which": cbk, "cb_ok": cb_ok, "cb_fault": cb_fault, "caching": B.bool("caching")}
    if e == "dumps":
        fake = B.with_fake_dill(DILL_REAL_SRC)
        env["nrpickler"] = fake["nrpickler"]
        env["File"] = fake["File"]
    for k, val in snapshot_assoc(B, verts, links, [U]).items():
        B.observe(k, val)
    out = B.run(PROG, env)
    B.observe("fault_seen", out["fault_seen"])
    B.reach("fault raised" if out["fault_seen"] else "no fault")
    B.prove(f"{e}: a fault-free call leaves every object unchanged (lists, attribute names and values)", out["clean_ok"])
    B.prove(f"{e}: a call whose call-back raises at its k-th invocation leaves every object unchanged", out["fault_ok"])
    B.prove(f"{e}: repeating the call with the well-behaved call-back gives the fault-free answer", out["again_ok"])
    B.prove(f"{e}: afterwards every cached neighbors() answer equals the uncached one", out["coherent"])
