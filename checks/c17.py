"""
C17  Semi-singletons: per class, instances correspond one-to-one to argument keys.
"""
ID = "C17"

MANIFEST = {
    "level": "Bounded model checking by symbolic execution of the real semi_singleton_metaclass (default and custom "
             "hashfunc), add_mapping, drop_semi_singleton_mapping, check_semi_singleton_entry_exists, "
             "get_all_semi_singleton_instances and clear_semi_singleton: histories of depth 2 (quick) / 3 (thorough), each followed by a probe construction of every class, over "
             "eight classes (own metaclass each; two classes sharing one metaclass object; a subclass of a semi-singleton "
             "class; a class with a custom key function; a class whose constructor rejects negative arguments; a class "
             "with falsy instances). Constructor arguments are UNBOUNDED symbolic integers "
             "(positional, and up to two keywords in either order); hash(int) follows CPython's exact rule, so distinct "
             "arguments with equal hashes are inside the search space. After every step the real behaviour must equal a "
             "per-class reference map from argument keys to instances; a final probe of every class checks isolation.",
    "note": "Bounds: history depth 2/3 (+ probes), one or two positional arguments, <= 2 keyword arguments. hash(tuple)/hash(str) are "
            "modelled as injective functions of the element hashes (mixing collisions of xxHash/SipHash are outside the "
            "claim); json.dumps is modelled as an injective rendering. Trusted: pysym's metaclass / closure model "
            "(validated per path on CPython), z3.",
    "design_ref": "DESIGN.md 5 (C17)",
}

BOUNDS = {"quick": {"classes": 8, "depth": "2 + probe of every class"}, "thorough": {"classes": 8, "depth": "3 + probe of every class"}}
TIME_BUDGET = {"quick": 400, "thorough": 1200}
STUBS = ["hash(int) -> exact CPython rule (mod 2^61-1, -1 -> -2)", "hash(tuple), hash(str) -> injective",
         "json.dumps(kwargs, sort_keys=True) -> injective canonical rendering"]
ASSUMPTIONS = ["arguments are integers (hashable, JSON-serialisable)",
               "in the symbolic histories instances are kept alive by the caller (garbage collection is not modelled; "
               "weakref.WeakValueDictionary is modelled as a dict); one native replay drops its references and collects"]
EXPLANATION = "bounded histories over several class arrangements with unbounded integer arguments against a reference key map"


def configs(tier):
    d = 2 if tier == "quick" else 3
    return [{"depth": d, "group": g} for g in ("own", "shared", "sub", "custom", "picky")] + [{"depth": 0, "group": "own", "native_gc": True}]


def required_markers(tier):
    return ["history"]


PROG = '''
from edgegraph.structure import singleton

COUNT = {"C": 0, "D": 0, "E": 0, "F": 0, "Sub": 0, "G": 0, "V": 0, "Z": 0}

class C(metaclass=singleton.semi_singleton_metaclass()):
    def __init__(self, *args, **kwargs):
        COUNT[type(self).__name__] += 1
        self.args = args

class D(metaclass=singleton.semi_singleton_metaclass()):
    def __init__(self, *args, **kwargs):
        COUNT[type(self).__name__] += 1
        self.args = args

SHARED = singleton.semi_singleton_metaclass()

class E(metaclass=SHARED):
    def __init__(self, *args, **kwargs):
        COUNT[type(self).__name__] += 1
        self.args = args

class F(metaclass=SHARED):
    def __init__(self, *args, **kwargs):
        COUNT[type(self).__name__] += 1
        self.args = args

class Sub(C):
    pass

class G(metaclass=singleton.semi_singleton_metaclass(lambda a, k: a[0])):
    def __init__(self, *args, **kwargs):
        COUNT[type(self).__name__] += 1
        self.args = args

class V(metaclass=singleton.semi_singleton_metaclass()):
    """a validating constructor: a negative first argument is rejected"""
    def __init__(self, *args, **kwargs):
        if args[0] < 0:
            raise ValueError("negative")
        COUNT[type(self).__name__] += 1
        self.args = args

class Z(metaclass=singleton.semi_singleton_metaclass()):
    """instances are falsy (an empty container-like object)"""
    def __init__(self, *args, **kwargs):
        COUNT[type(self).__name__] += 1
        self.args = args

    def __bool__(self):
        return False

    def __len__(self):
        return 0

ALL = {"C": C, "D": D, "E": E, "F": F, "Sub": Sub, "G": G, "V": V, "Z": Z}
CLASSES = [ALL[n] for n in names]
N = len(names)
keys = [[] for n in names]     # per class: list of live keys
vals = [[] for n in names]     # per class: the instance mapped by the key at the same position
cnt = [0 for n in names]
ok = True
raised = None

def key_of(ci, args, kw):
    if names[ci] == "G":
        return args[0]
    items = []
    for k in sorted(kw):
        items.append((k, kw[k]))
    return (args, items)

def find(ci, key):
    i = 0
    while i < len(keys[ci]):
        if keys[ci][i] == key:
            return i
        i = i + 1
    return -1

def call(fn, first, args, kw, kwfirst):
    # keyword order permutations: pass the keywords in either order
    if len(kw) == 2 and kwfirst:
        ks = list(kw)
        return fn(first, *args, **{ks[1]: kw[ks[1]], ks[0]: kw[ks[0]]})
    return fn(first, *args, **kw)

def construct(ci, args, kw, kwfirst):
    global ok
    cls = CLASSES[ci]
    key = key_of(ci, args, kw)
    i = find(ci, key)
    try:
        if len(kw) == 2 and kwfirst:
            ks = list(kw)
            r = cls(*args, **{ks[1]: kw[ks[1]], ks[0]: kw[ks[0]]})
        else:
            r = cls(*args, **kw)
    except ValueError:
        # only the validating class rejects, only a new key with a negative first argument; a rejected
        # construction creates no mapping
        ok = ok and (names[ci] == "V") and (args[0] < 0) and (i < 0)
        ok = ok and (call(singleton.check_semi_singleton_entry_exists, cls, args, kw, kwfirst) is None)
        got = list(singleton.get_all_semi_singleton_instances(cls))
        for g in got:
            ok = ok and (g in vals[ci])
        for v in vals[ci]:
            ok = ok and (v in got)
        return None
    if names[ci] == "V" and i < 0:
        ok = ok and (args[0] >= 0)
    if i < 0:
        keys[ci].append(key)
        vals[ci].append(r)
        cnt[ci] = cnt[ci] + 1
        ok = ok and (r.args == args)
        # a new key must give an instance that no live key of any class maps to
        fresh = True
        j = 0
        while j < N:
            m = 0
            while m < len(vals[j]):
                if not (j == ci and m == len(vals[ci]) - 1):
                    fresh = fresh and (vals[j][m] is not r)
                m = m + 1
            j = j + 1
        ok = ok and fresh
    else:
        ok = ok and (r is vals[ci][i])
    ok = ok and (type(r) is cls) and (COUNT[names[ci]] == cnt[ci])
    return r

try:
    for op in ops:
        kind, ci, args, kw, kwfirst, oi = op
        if kind == 0:
            construct(ci, args, kw, kwfirst)
        elif kind == 1:
            # add_mapping: another name for an existing instance of this class (if there is one)
            if len(vals[ci]) > 0:
                obj = vals[ci][0]
                call(singleton.add_mapping, obj, args, kw, kwfirst)
                key = key_of(ci, args, kw)
                i = find(ci, key)
                if i < 0:
                    keys[ci].append(key)
                    vals[ci].append(obj)
                else:
                    vals[ci][i] = obj
        elif kind == 2:
            key = key_of(ci, args, kw)
            i = find(ci, key)
            dropped = True
            try:
                call(singleton.drop_semi_singleton_mapping, CLASSES[ci], args, kw, kwfirst)
            except KeyError:
                dropped = False
            # dropping a live mapping must succeed; what dropping an absent one does (KeyError today) is not stated
            if i >= 0:
                ok = ok and dropped
            if i >= 0:
                keys[ci].pop(i)
                vals[ci].pop(i)
        elif kind == 3:
            before = COUNT[names[ci]]
            got = call(singleton.check_semi_singleton_entry_exists, CLASSES[ci], args, kw, kwfirst)
            key = key_of(ci, args, kw)
            i = find(ci, key)
            if i < 0:
                ok = ok and (got is None)
            else:
                ok = ok and (got is vals[ci][i])
            ok = ok and (COUNT[names[ci]] == before)
        elif kind == 4:
            before = COUNT[names[ci]]
            got = list(singleton.get_all_semi_singleton_instances(CLASSES[ci]))
            for g in got:
                ok = ok and (g in vals[ci])
            for v in vals[ci]:
                ok = ok and (v in got)
            ok = ok and (COUNT[names[ci]] == before)
        else:
            singleton.clear_semi_singleton(CLASSES[ci])
            keys[ci] = []
            vals[ci] = []
    # final probe of every class with one more symbolic argument
    ci = 0
    while ci < N:
        construct(ci, (probe,), {}, False)
        ci = ci + 1
except Exception as exc:
    raised = type(exc).__name__
no_exc = raised is None
'''

GROUPS = {"own": ["C", "D"], "shared": ["E", "F"], "sub": ["C", "Sub"], "custom": ["G", "C"], "picky": ["V", "Z"]}


def native_unreferenced(B):
    """[native replay] the caller keeps NO reference to the constructed instances (garbage collection is outside
    the symbolic model): a mapping may disappear only through drop / clear"""
    import gc
    from edgegraph.structure import singleton
    counts = {"n": 0}

    class Node(metaclass=singleton.semi_singleton_metaclass()):
        def __init__(self, x):
            counts["n"] += 1
            self.x = x
    Node(5)
    gc.collect()
    exists = singleton.check_semi_singleton_entry_exists(Node, 5) is not None
    listed = len(list(singleton.get_all_semi_singleton_instances(Node)))
    Node(5)
    gc.collect()
    ok = exists and (listed == 1) and (counts["n"] == 1)
    singleton.clear_semi_singleton(Node)
    B.prove("[native replay] a mapping whose instance the caller does not hold stays live until dropped or cleared "
            "(entry exists: %s, listed: %d, __init__ ran %d times)" % (exists, listed, counts["n"]), ok)


def scenario(B, p):
    names = GROUPS[p["group"]]
    ops = []
    for s in range(p["depth"]):
        kind = B.choice(f"s{s}.kind", 6)
        ci = B.choice(f"s{s}.cls", len(names))
        if kind in (4, 5):
            ops.append(B.mktuple([kind, ci, B.mktuple([]), B.mkdict([]), False, 0]))
            continue
        # argument shapes: (a), (a, b), (a, p=), (a, p=, q=) with the keywords in either order
        shape = B.choice(f"s{s}.shape", 4 if names[ci] != "G" else 2)
        nargs = 2 if shape == 1 else 1
        args = B.mktuple([B.int(f"s{s}.a{i}") for i in range(nargs)])
        nkw = {0: 0, 1: 0, 2: 1, 3: 2}[shape]
        kw = B.mkdict([(["p", "q"][i], B.int(f"s{s}.k{i}")) for i in range(nkw)])
        kwfirst = (B.choice(f"s{s}.kworder", 2) == 1) if nkw == 2 else False
        ops.append(B.mktuple([kind, ci, args, kw, kwfirst, 0]))
    out = B.run(PROG, {"ops": B.mklist(ops), "names": B.mklist(names), "probe": B.int("probe")})
    B.observe("raised", out["raised"])
    B.observe("count", out["COUNT"])
    B.reach("history")
    B.prove("no step raises (other than dropping an absent mapping)", out["no_exc"])
    if p.get("native_gc"):
        B.native_only(native_unreferenced)
    B.prove("every operation agrees with the per-class reference key map", out["ok"])
