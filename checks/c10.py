"""
C10  nrpickler round-trips any graph to an isomorphic, usable, detached copy.

What is decided by the solver (DESIGN 5, C10): the queue discipline of the repository's own
_NonrecursivePickler (lazywrite / save / lazymemoize / dump), interpreted over an ABSTRACT recursive base
pickler in which every object has a symbolic "program" of actions {write a token, save a child, memoize
itself}: the token stream the real subclass writes must equal the stream of the plain recursive base class,
memo indices included; and the interpreter call depth inside dump() must not grow with the length of a chain.
What is NOT decided by the solver and is reported as concrete replay only: round trips through the real
pickle / dill byte streams (every explored graph-shape witness is dumped with the real nrpickler for protocols
0-5, loaded in this process and - for a sample - in a fresh interpreter with caching on and off, and compared
structurally), and a chain far deeper than the recursion limit.
"""
import json
import os
import subprocess
import sys

from harness.common import make_vertices, make_links, symbolic_assoc_state, inv01, inv02, snapshot_assoc

ID = "C10"

MANIFEST = {
    "level": "Bounded model checking of the non-recursive queue discipline: the real _NonrecursivePickler is executed "
             "symbolically on top of an abstract recursive base pickler; for every assignment of action programs "
             "(<= 3 objects x <= 3 actions, thorough also 2 x 4, from {write, save child, memoize}; children, sharing and cycles symbolic) the "
             "token stream must equal the recursive base class's stream, and dump()'s call depth must be independent of "
             "chain length (chains 2..7). Complemented by concrete replays (NOT solver-decided, labelled '[native replay]'): "
             "real nrpickler.dumps -> pickle.loads round trips of every explored graph shape for protocols 0-5 "
             "(classes, uids, attributes, ordered links / ends / members, sharing, BFS order, graph untouched by dumps), "
             "fresh-interpreter loads with caching on and off for a sample, payloads above the 64 KiB framing threshold, value-hashed subclasses dumped from a member vertex, and a 3000-deep chain under recursion limit 500.",
    "note": "Outside the solver-decided claim: the correctness of pickle/dill themselves and the real byte stream (only "
            "replayed), graphs beyond the bound. Assumed in the main configurations: action "
            "programs are well-founded (an object saves an object of smaller-or-equal index only after its own memoize), "
            "as pickle does for lists, dicts and instances; the 'late_memo' configuration drops this (tuples and by-value "
            "classes memoise after their children) and exhibits known finding C10-KF1. The usability of a copy whose __init__ never ran is decided in C05 "
            "(missing statistics record). Trusted: pysym (validated per path by running the REAL nrpickler module "
            "natively over the same abstract base class), z3.",
    "design_ref": "DESIGN.md 5 (C10)",
}

BOUNDS = {"quick": {"objects": "2x3, 3x3 actions", "chain_lengths": "2..7", "roundtrip_graphs": "3 vertices, 2 links, 1 universe"},
          "thorough": {"objects": "2x3, 3x3, 2x4 actions", "chain_lengths": "2..9", "roundtrip_graphs": "3 vertices, 2-3 links"}}
TIME_BUDGET = {"quick": 400, "thorough": 1200}
STUBS = ["dill.Pickler -> abstract recursive pickler over symbolic action programs (harness source, also used natively "
         "under the real nrpickler module)", "pickle / io -> real modules (constants only)"]
ASSUMPTIONS = ["abstract objects are instance-like (memoize, then children) or tuple-like (children, recursion check, memoize)", "real byte-level round trips are replays, not proofs"]
EXPLANATION = "queue discipline vs recursive reference over symbolic object programs; real round trips replayed per witness"

STUB_SRC = '''
PROGRAMS = {}

class Node:
    """an abstract picklable object (identity-hashed)"""
    def __init__(self, idx):
        self.idx = idx

class Pickler:
    def __init__(self, file, protocol=None, byref=None, fmode=None, recurse=None, **kw):
        if protocol is None:
            self.proto = 4
        else:
            self.proto = protocol
        self.memo = {}
        self.write = file.write

    def save(self, obj, save_persistent_id=None):
        if obj in self.memo:
            self.write(("GET", self.memo[obj]))
            return
        for act in PROGRAMS[obj]:
            kind = act[0]
            if kind == 0:
                self.write(("W", obj, act[2]))
            elif kind == 1:
                self.save(act[1])
            elif kind == 2:
                self.memoize(obj)
            else:
                # how pickle finishes a tuple (dill: a by-value class): if saving the elements already memoised
                # it (a recursive structure), discard and fetch it; otherwise emit it and memoise it now
                if obj in self.memo:
                    self.write(("POPGET", self.memo[obj]))
                else:
                    self.write(("TUPLE", obj))
                    self.memoize(obj)

    def memoize(self, obj):
        assert obj not in self.memo        # as pickle.Pickler.memoize does
        idx = len(self.memo)
        self.write(("PUT", idx))
        self.memo[obj] = idx

    def dump(self, obj):
        self.write(("PROTO", self.proto))
        self.save(obj)
        self.write(("STOP",))

class File:
    def __init__(self):
        self.tokens = []
        self.maxdepth = 0

    def write(self, tok):
        self.tokens.append(tok)
        d = depth_probe()
        if d > self.maxdepth:
            self.maxdepth = d
'''

PROG_STREAM = '''
for o, prog in programs:
    PROGRAMS[o] = prog
root = programs[0][0]
f1 = File()
ref_raised = None
try:
    Pickler(f1, protocol=proto).dump(root)
except Exception as exc:
    ref_raised = type(exc).__name__
ref = f1.tokens
f2 = File()
raised = None
try:
    nrpickler.dump(root, f2, protocol=proto)
except Exception as exc:
    raised = type(exc).__name__
got = f2.tokens
same = (raised is None) and (ref_raised is None) and (len(got) == len(ref)) and (got[1:-1] == ref[1:-1])
'''

PROG_DEPTH = '''
def chain(n):
    nodes = [Node(i) for i in range(n)]
    i = 0
    while i < n:
        if i + 1 < n:
            PROGRAMS[nodes[i]] = [(2, None, 0), (0, None, 7), (1, nodes[i + 1], 0), (0, None, 8)]
        else:
            PROGRAMS[nodes[i]] = [(2, None, 0), (0, None, 7)]
        i = i + 1
    return nodes[0]

depths = []
for n in lengths:
    PROGRAMS.clear()
    first = chain(n)
    f = File()
    nrpickler.dump(first, f, protocol=4)
    depths.append(f.maxdepth)
flat = True
for d in depths:
    flat = flat and (d == depths[0])
# the recursive base class, for contrast, does grow (sanity of the probe)
PROGRAMS.clear()
first = chain(2)
fa = File()
Pickler(fa, protocol=4).dump(first)
PROGRAMS.clear()
first = chain(6)
fb = File()
Pickler(fb, protocol=4).dump(first)
probe_ok = fb.maxdepth > fa.maxdepth
'''


LEAF = b"leaf"


def configs(tier):
    out = [{"mode": "stream", "nobj": 2, "nact": 3}, {"mode": "stream", "nobj": 3, "nact": 3},
           {"mode": "stream", "nobj": 2, "nact": 3, "leaf": True},
           # objects that memoise themselves after their children (tuples, by-value classes): known finding C10-KF1
           {"mode": "stream", "nobj": 2, "nact": 3, "late_memo": True},
           {"mode": "kf_tuple"}, {"mode": "kf_byvalue"}, {"mode": "valuehash"}]
    if tier != "quick":
        out.append({"mode": "stream", "nobj": 2, "nact": 4})
        out.append({"mode": "stream", "nobj": 3, "nact": 2, "leaf": True})
    out.append({"mode": "depth", "lengths": [2, 3, 5, 7] if tier == "quick" else [2, 3, 5, 7, 9]})
    for cs in ([["DE", "UE"]] if tier == "quick" else [["DE", "UE"], ["DE", "DE"], ["SD", "TE"]]):
        out.append({"mode": "roundtrip", "classes": cs})
    out.append({"mode": "bigchain"})
    # the concrete replays first: they are cheap, and a change that makes the abstract stream configurations
    # inconclusive (byte-level manipulation of the stream) is still confronted with real pickling
    out.sort(key=lambda c: 0 if c["mode"] in ("kf_tuple", "kf_byvalue", "valuehash", "roundtrip", "bigchain") else 1)
    return out


def required_markers(tier):
    return ["stream", "depth", "roundtrip"]


# --------------------------------------------------------------------------- native replays (not solver-decided)
FRESH_LOADER = r'''
import pickle, sys, json
from edgegraph.structure import Vertex
from edgegraph.traversal import helpers, breadthfirst
Vertex.NEIGHBOR_CACHING = (sys.argv[2] == "1")
u = pickle.load(open(sys.argv[1], "rb"))
out = []
for v in u.vertices:
    out.append([v.uid, [w.uid for w in helpers.neighbors(v, 1)], [w.uid for w in helpers.neighbors(v, 1)],
                [w.uid for w in breadthfirst.bft(None, v, direction_sensitive=1)]])
print(json.dumps(out))
'''


def _describe(objs):
    """structure of a graph by position in the reachability order: classes, uids, attributes (instance dict and
    __slots__), ordered lists, sharing"""
    pos = {id(o): i for i, o in enumerate(objs)}

    def ref(x):
        if x is None or isinstance(x, (int, str, bool)):
            return repr(x)
        return "#%s" % pos.get(id(x), "?")
    out = []
    for o in objs:
        d = {"cls": type(o).__module__ + "." + type(o).__qualname__, "uid": o.uid}
        for f in ("_links", "_vertices", "_universes"):
            if f in o.__dict__:
                d[f] = [ref(x) for x in o.__dict__[f]]
        d["attrs"] = sorted((k, repr(v)) for k, v in o.__dict__.items()
                            if not k.startswith("_") and isinstance(v, (int, str, bool, type(None))))
        slots = []
        for c in type(o).__mro__:
            for sl in getattr(c, "__slots__", ()):
                slots.append((sl, ref(getattr(o, sl, None))))
        d["slots"] = slots
        out.append(d)
    return out


def _reach(u):
    """objects reachable from u through the association lists and slots, in a deterministic traversal order
    (no uid is read here: a uid that only springs into existence when read must not be masked)"""
    seen, work = [], [u]
    while work:
        x = work.pop(0)
        if x is None or isinstance(x, (int, str, bool)) or any(x is s for s in seen):
            continue
        seen.append(x)
        for f in ("_links", "_vertices", "_universes"):
            work.extend(getattr(x, "__dict__", {}).get(f, []))
        for c in type(x).__mro__:
            for sl in getattr(c, "__slots__", ()):
                work.append(getattr(x, sl, None))
    return seen


def native_roundtrip(B, U, verts, sample_fresh):
    import pickle
    import tempfile
    from edgegraph.output import nrpickler
    from edgegraph.structure import Vertex
    from edgegraph.traversal import helpers, breadthfirst
    # one vertex carries payloads larger than the pickle framing threshold (64 KiB): pickle writes those
    # around its frame buffer, straight to the file object
    if verts:
        verts[0].blob = "x" * 70000
        verts[0].blob_b = b"y" * 70000
    for warm in (False, True):
        Vertex.NEIGHBOR_CACHING = warm
        if warm:
            for v in verts:
                try:
                    helpers.neighbors(v, 1)
                except Exception:
                    pass
        objs = _reach(U)
        vars_before = [sorted(o.__dict__) for o in objs]
        lists_before = [[list(o.__dict__.get(f, [])) for f in ("_links", "_vertices", "_universes")] for o in objs]
        ok = True
        why = ""
        first_data = None
        for proto in range(0, 6):
            if proto < 2 and any(hasattr(type(o), "__slots__") and "__dict__" in dir(o) and type(o).__name__ == "SlotVertex" for o in objs):
                continue        # CPython refuses to pickle slotted classes under protocols 0 and 1
            try:
                # dump FIRST, describe afterwards: nothing of the original is read before it is serialised
                data = nrpickler.dumps(U, protocol=proto)
                copy = pickle.loads(data)
                copy2 = pickle.loads(data)
            except Exception as exc:        # noqa
                ok, why = False, f"proto {proto}: {type(exc).__name__}: {exc}"
                break
            before = _describe(objs)
            cobjs = _reach(copy)
            if _describe(cobjs) != before or _describe(_reach(copy2)) != before:
                ok, why = False, f"proto {proto}: structure / uids / attributes differ"
                break
            if any(any(c is o for o in objs) for c in cobjs):
                ok, why = False, f"proto {proto}: copy shares an object with the original"
                break
            for v, c in zip(U.vertices, copy.vertices):
                try:
                    a = [w.uid for w in breadthfirst.bft(None, v, direction_sensitive=1)]
                except Exception as exc:
                    a = type(exc).__name__
                try:
                    b = [w.uid for w in breadthfirst.bft(None, c, direction_sensitive=1)]
                except Exception as exc:
                    b = type(exc).__name__
                if a != b:
                    ok, why = False, f"proto {proto}: bft differs on the copy"
        B.prove(f"[native replay] real nrpickler.dumps -> pickle.loads is an isomorphic detached copy, protocols 0-5 "
                f"(warm cache: {warm}) {why}", ok)
        B.prove("[native replay] nrpickler.dumps leaves the graph unchanged",
                [sorted(o.__dict__) for o in objs] == vars_before and
                [[list(o.__dict__.get(f, [])) for f in ("_links", "_vertices", "_universes")] for o in objs] == lists_before)
    Vertex.NEIGHBOR_CACHING = False
    if verts:
        del verts[0].blob
        del verts[0].blob_b
    if sample_fresh and len(U.vertices) > 0:
        root = os.environ.get("EDGEGRAPH_ROOT", "/repo")
        env = dict(os.environ)
        env["PYTHONPATH"] = root
        fd, path = tempfile.mkstemp(suffix=".pkl")
        try:
            with os.fdopen(fd, "wb") as fh:
                Vertex.NEIGHBOR_CACHING = True
                for v in verts:
                    try:
                        helpers.neighbors(v, 1)
                    except Exception:
                        pass
                fh.write(nrpickler.dumps(U))
                Vertex.NEIGHBOR_CACHING = False
            want = []
            for v in U.vertices:
                try:
                    nb = [w.uid for w in helpers.neighbors(v, 1)]
                    bf = [w.uid for w in breadthfirst.bft(None, v, direction_sensitive=1)]
                    want.append([v.uid, nb, nb, bf])
                except Exception:
                    want = None
                    break
            for flag in ("0", "1"):
                r = subprocess.run([sys.executable, "-c", FRESH_LOADER, path, flag], env=env, capture_output=True, text=True)
                okf = True
                if want is not None:
                    okf = (r.returncode == 0) and (json.loads(r.stdout or "null") == want)
                B.prove(f"[native replay] copy loaded in a FRESH interpreter (caching {'on' if flag == '1' else 'off'}) answers "
                        f"neighbors / bft like the original {r.stderr.strip().splitlines()[-1] if r.stderr.strip() else ''}", okf)
        finally:
            os.unlink(path)


def native_bigchain(B):
    import pickle
    from edgegraph.output import nrpickler
    from edgegraph.structure import Vertex, DirectedEdge, Universe
    vs = [Vertex(attributes={"i": i}) for i in range(3000)]
    for a, b in zip(vs, vs[1:]):
        DirectedEdge(a, b)
    u = Universe(vertices=vs)
    old = sys.getrecursionlimit()
    ok, why = True, ""
    try:
        sys.setrecursionlimit(500)
        data = nrpickler.dumps(u)
    except RecursionError as exc:
        ok, why = False, "RecursionError"
    finally:
        sys.setrecursionlimit(max(old, 20000))
    if ok:
        copy = pickle.loads(data)
        ok = [v.i for v in copy.vertices] == list(range(3000)) and len(copy.vertices[0].links) == 1
    sys.setrecursionlimit(old)
    B.prove(f"[native replay] a 3000-vertex chain is dumped under recursion limit 500 and loads back {why}", ok)


KF_BYVALUE = r'''
import sys
from edgegraph.structure import Vertex
from edgegraph.output import nrpickler
class City(Vertex):
    def __init__(self, **kw):
        super().__init__(**kw)
data = nrpickler.dumps(City())
import dill
print(type(dill.loads(data)).__name__)
'''


VALUEHASH = r'''
import pickle
from edgegraph.structure import Vertex, Universe, DirectedEdge
from edgegraph.output import nrpickler
class Station(Vertex):
    def __eq__(self, other):
        return type(other).__qualname__ == "Station" and self.name == other.name
    def __hash__(self):
        return hash(self.name)
u = Universe()
sts = [Station(attributes={"name": n}, universes=[u]) for n in ("a", "b", "c")]
for i in range(3):
    DirectedEdge(sts[i], sts[(i + 1) % 3])
for proto in range(2, 6):
    c = pickle.loads(nrpickler.dumps(sts[0], protocol=proto))
    cu = c.universes[0]
    assert [v.name for v in cu.vertices] == ["a", "b", "c"] and cu.vertices[0] is c
    assert [l.v2.name for v in cu.vertices for l in v.links if l.v1 is v] == ["b", "c", "a"]
print("OK")
'''


def native_valuehash(B):
    """[native replay] vertices that hash / compare by an attribute value, dumped from a member vertex: while the
    copy is being rebuilt such an object cannot be hashed yet, so nothing may hash graph objects during loading"""
    root = os.environ.get("EDGEGRAPH_ROOT", "/repo")
    env = dict(os.environ)
    env["PYTHONPATH"] = root
    try:
        r = subprocess.run([sys.executable, "-c", VALUEHASH], env=env, capture_output=True, text=True, timeout=60)
        ok, why = (r.returncode == 0 and r.stdout.strip() == "OK"), (r.stderr.strip().splitlines() or [""])[-1]
    except subprocess.TimeoutExpired:
        ok, why = False, "no result after 60 s"
    B.prove(f"[native replay] a graph of value-hashed Vertex subclass instances dumped from a member vertex loads back {why}", ok)


def native_kf_tuple(B):
    import pickle
    from edgegraph.output import nrpickler
    from edgegraph.structure import Vertex, Universe
    v, w = Vertex(), Vertex()
    u = Universe(vertices=[v, w])
    t = (w,)
    v.t = t
    w.back = t
    ok, why = True, ""
    try:
        c = pickle.loads(nrpickler.dumps(u))
        ok = c.vertices[0].t is c.vertices[1].back
    except Exception as exc:
        ok, why = False, type(exc).__name__
    B.prove(f"[native replay] a tuple attribute shared between a vertex and a vertex it contains survives the round trip {why}", ok)


def native_kf_byvalue(B):
    root = os.environ.get("EDGEGRAPH_ROOT", "/repo")
    env = dict(os.environ)
    env["PYTHONPATH"] = root
    try:
        r = subprocess.run([sys.executable, "-c", KF_BYVALUE], env=env, capture_output=True, text=True, timeout=30)
        ok, why = (r.returncode == 0 and r.stdout.strip() == "City"), (r.stderr.strip().splitlines() or [""])[-1]
    except subprocess.TimeoutExpired:
        ok, why = False, "no result after 30 s"
    B.prove(f"[native replay] an instance of a by-value (__main__) Vertex subclass using zero-argument super() is dumped {why}", ok)


def scenario(B, p):
    if p["mode"] in ("kf_tuple", "kf_byvalue", "valuehash"):
        B.reach("roundtrip")
        B.prove("(solver side: nothing to decide; the obligation is the native replay)", True)
        B.native_only({"kf_tuple": native_kf_tuple, "kf_byvalue": native_kf_byvalue, "valuehash": native_valuehash}[p["mode"]])
        return
    if p["mode"] == "stream":
        nobj, nact = p["nobj"], p["nact"]
        env = B.with_fake_dill(STUB_SRC)
        nodes = [B.label(B.run("x = Node(i)", dict(env, i=o))["x"], f"obj{o}") for o in range(nobj)]

        def rank(x):
            r = 0
            for i, nd in enumerate(nodes):
                r = B.ite(B.is_(x, nd), i, r)
            return r
        programs = []
        late_edges = []
        for o in range(nobj):
            acts = []
            kinds = []
            n = B.int(f"n{o}", 0, nact)
            for j in range(nact):
                kind = B.int(f"k{o}_{j}", 0, 2)
                if p.get("leaf") and B.choice(f"leafchild{o}_{j}", 2) == 1:
                    # the child is a shared scalar leaf (a bytes object: written, then memoised, as pickle does)
                    child = LEAF
                    B.assume(B.eq(kind, 1), "leaf child is saved")
                else:
                    child = B.ref(f"c{o}_{j}", nodes)
                    earlier = B.or_(*[B.eq(k2, 2) for k2 in kinds]) if kinds else False
                    if p.get("late_memo"):
                        pass
                    else:
                        # instance-like programs: an object saves children only after it memoised itself (what pickle
                        # does for lists, dicts and instances).  Objects that are memoised AFTER their children (tuples,
                        # by-value classes) are modelled faithfully - including pickle's recursion check - in the
                        # late_memo configuration only.
                        B.assume(B.implies(B.eq(kind, 1), earlier), "instance-like: memoize before children")
                # an object memoises itself at most once (pickle asserts this)
                if kinds:
                    B.assume(B.implies(B.eq(kind, 2), B.not_(B.or_(*[B.eq(k2, 2) for k2 in kinds]))), "single memoize")
                kinds.append(kind)
                acts.append(B.mktuple([kind, child, B.int(f"w{o}_{j}", 0, 1)]))
            programs.append(B.mktuple([nodes[o], B.symlist(acts, n)]))
        if p.get("leaf"):
            programs.append(B.mktuple([LEAF, B.mklist([B.mktuple([0, None, 5]), B.mktuple([2, None, 0])])]))
        if p.get("late_memo"):
            # Faithful shapes: an INSTANCE-like object memoises itself first and then writes / saves anything
            # (cycles and sharing allowed); a TUPLE-like object saves its elements first and is finished (and
            # memoised) afterwards - its elements may be any instance-like object, or a tuple-like object of
            # higher index (a tuple cannot contain itself without an intermediate instance).
            programs = []
            tuple_like = [B.choice(f"tuple_like{o}", 2) == 1 for o in range(nobj)]
            for o in range(nobj):
                acts = []
                for j in range(nact - 1):
                    kind = B.int(f"k{o}_{j}", 0, 1)
                    child = B.ref(f"c{o}_{j}", nodes)
                    if tuple_like[o]:
                        for o2 in range(nobj):
                            if tuple_like[o2] and o2 <= o:
                                B.assume(B.implies(B.eq(kind, 1), B.not_(B.is_(child, nodes[o2]))), "tuples nest upwards")
                    acts.append(B.mktuple([kind, child, B.int(f"w{o}_{j}", 0, 1)]))
                n = B.int(f"n{o}", 0, nact - 1)
                body = B.items(B.symlist(acts, n))
                if tuple_like[o]:
                    programs.append(B.mktuple([nodes[o], B.mklist(body + [B.mktuple([3, None, 0])])]))
                else:
                    programs.append(B.mktuple([nodes[o], B.mklist([B.mktuple([2, None, 0])] + body)]))
        env["programs"] = B.mklist(programs)
        env["proto"] = 2 + B.choice("proto", 4)
        out = B.run(PROG_STREAM, env)
        B.observe("raised", out["raised"])
        B.observe("ntokens", B.run("n = len(t)", {"t": out["ref"]})["n"])
        B.reach("stream")
        B.prove("the non-recursive pickler writes exactly the recursive pickler's token stream (memo indices included)", out["same"])
        return
    if p["mode"] == "depth":
        env = B.with_fake_dill(STUB_SRC)
        env["lengths"] = B.mklist(p["lengths"])
        out = B.run(PROG_DEPTH, env)
        B.reach("depth")
        B.prove("the depth probe distinguishes recursion (the recursive base class does go deeper on a longer chain)", out["probe_ok"])
        B.prove("dump()'s call depth does not grow with the length of the chain", out["flat"])
        return
    if p["mode"] == "bigchain":
        B.reach("roundtrip")
        B.prove("(solver side: nothing to decide; the obligation is the native replay)", True)
        B.native_only(native_bigchain)
        return
    verts = make_vertices(B, 3, ["Vertex", "SubVertex", "SlotVertex"])
    B.set_attr(verts[2], "payload", 5)
    B.set_attr(verts[2], "peer", verts[0])
    links = make_links(B, p["classes"])
    n = len(links)
    symbolic_assoc_state(B, verts, links, n, n, two_ended_wellformed=True)
    B.assume(inv01(B, verts, links), "Inv01(pre)")
    U = B.new("U", "Universe")
    B.set_field(U, "_vertices", B.reflist("U.members", verts, 3, 3))
    for v in verts:
        B.set_field(v, "_universes", B.reflist(B.label_of(v) + "._universes", [U], 1, 1))
    B.assume(inv02(B, verts, [U]), "Inv02(pre)")
    B.set_field(verts[0], "colour", "red")
    B.set_field(verts[1], "i", 7)
    # every graph SHAPE becomes one witness: concretise all lists and references (forks)
    shape = B.run("sh = [[[id(e) for e in l._vertices] for l in v._links] for v in pool] + [[id(m) for m in U._vertices]]",
                  {"pool": B.mklist(verts), "U": U})["sh"]
    members = B.items(B.get_field(U, "_vertices"))
    e0 = B.items(B.get_field(links[0], "_vertices"))
    # fresh-interpreter loads (two sub-processes each) for a fixed sub-family of the shapes
    fresh = len(members) == 3 and members[0] is verts[0] and members[1] is verts[1] and e0[0] is verts[0] and e0[1] is verts[1]
    for k, val in snapshot_assoc(B, verts, links, [U]).items():
        B.observe(k, val)
    B.reach("roundtrip")
    B.prove("(solver side: the graph shape witness exists; the round trip itself is a native replay)", True)
    B.native_only(lambda NB: native_roundtrip(NB, U, verts, fresh))
