"""
C16  Plain-text rendering: one well-formed line per vertex listing its neighbours.
"""
from harness.common import make_vertices, make_links, symbolic_assoc_state, inv01, snapshot_assoc

ID = "C16"

MANIFEST = {
    "level": "Bounded model checking by symbolic execution of the real basic_render and helpers.neighbors, with the output "
             "compared in z3's theory of strings: universe membership and order, link ends (neighbours outside the "
             "universe included), per-vertex link order are symbolic; rfunc is an uninterpreted function Vertex -> "
             "String over UNBOUNDED strings (or absent: repr), sort an uninterpreted function Vertex -> Int (or absent). "
             "The returned text must equal, as a string, the lines 'label -> n1, n2, ...' joined by newlines, in "
             "universe (or key) order; a vertex without neighbours keeps its arrow; empty universe -> None.",
    "note": "Bounds: 3 vertices, 2 links (quick) / 3 links (thorough) from {DirectedEdge, UnDirectedEdge and subclasses}. "
            "Sort keys are assumed pairwise distinct (tie order is not part of the statement); for a vertex without "
            "neighbours the line may end in ' -> ' or ' ->'. Trusted: pysym (validated per path on CPython), z3 "
            "sequence theory (unknown is reported as inconclusive).",
    "design_ref": "DESIGN.md 5 (C16)",
}

BOUNDS = {"quick": {"vertices": 3, "links": 2}, "thorough": {"vertices": 3, "links": 3}}
TIME_BUDGET = {"quick": 300, "thorough": 1200}
STUBS = ["rfunc -> uninterpreted function Vertex -> String (unbounded)", "sort -> uninterpreted injective function Vertex -> Int",
         "repr(vertex) -> distinct opaque text per object"]
ASSUMPTIONS = ["sort keys pairwise distinct", "rfunc labels do not start with '<' (they cannot be confused with a default repr)", "rfunc returns strings and is pure", "links are directed / undirected edges (defaults of neighbors())"]
EXPLANATION = "real renderer vs reference text in the theory of strings, labels unbounded"


def configs(tier):
    out = []
    sets = [["DE", "UE"], ["DE", "DE"]] if tier == "quick" else [["DE", "UE"], ["DE", "DE"], ["SU", "SD"], ["DE", "UE", "DE"], ["UE", "UE", "DE"]]
    for cs in sets:
        for rf in ("uf", "none"):
            for so in ("none", "uf"):
                if tier == "quick" and rf == "none" and so == "uf":
                    continue
                if len(cs) > 2 and so == "uf":
                    continue
                out.append({"classes": cs, "rfunc": rf, "sort": so})
    # two distinct vertices that compare equal (value equality): neighbours are told apart by identity
    out.append({"classes": ["DE", "UE"], "rfunc": "uf", "sort": "none", "eqv": True})
    # distinct vertices (members and neighbours) that carry one and the same uid: renderings go by object, not by uid
    out.append({"classes": ["DE", "UE"], "rfunc": "uf", "sort": "none", "same_uid": True})
    return out


def required_markers(tier):
    return ["empty", "isolated vertex line", "line with neighbours"]


PROG = '''
from edgegraph.output.plaintext import basic_render
from refmodel import ref_basic_render, ref_neighbors
raised = None
got = None
try:
    got = basic_render(uni, rfunc=rf, sort=so)
except Exception as exc:
    raised = type(exc).__name__
want = ref_basic_render(uni, rf, so)
has_isolated = False
has_nb = False
for v in uni._vertices:
    nbs, _ = ref_neighbors(v, 0, 2, None)
    if len(nbs) == 0:
        has_isolated = True
    else:
        has_nb = True
if want is None:
    ok = got is None
elif got is None:
    ok = False
elif has_isolated:
    # the statement fixes that the arrow is kept; a trailing blank after it is not fixed
    ok = (got == want) or (got == ref_basic_render(uni, rf, so, True))
else:
    ok = (got == want)
'''


def scenario(B, p):
    verts = make_vertices(B, 3, ["EqVertex", "EqVertex", "Vertex"] if p.get("eqv") else
                          (["Vertex", "NamedVertex", "Vertex"] if p["rfunc"] == "none" else None),
                          uid=7 if p.get("same_uid") else None)
    links = make_links(B, p["classes"])
    n = len(links)
    symbolic_assoc_state(B, verts, links, n, n, two_ended_wellformed=True)
    for l in links:
        for e in B.items(B.get_field(l, "_vertices")):
            B.assume(B.not_(B.is_(e, None)), "ends are vertices")
    B.assume(inv01(B, verts, links), "Inv01(pre)")
    uni = B.new("U", "Universe")
    B.set_field(uni, "_vertices", B.reflist("U.members", verts, 3, 3))
    B.assume(B.nodup(B.get_field(uni, "_vertices")), "members distinct")
    rf = B.uf("rfunc", [verts], "str") if p["rfunc"] == "uf" else None
    if rf is not None:
        # labels that look like a default repr ('<... object at 0x...>') are excluded: pysym's and CPython's
        # default reprs differ in the address, which would make such a label mean different things in the replay
        for v in verts:
            lab = B.run("k = f(v)", {"f": rf, "v": v})["k"]
            B.assume(B.not_(B.str_startswith(lab, "<")), "labels do not start with '<'")
    so = None
    if p["sort"] == "uf":
        so = B.uf("sortkey", [verts], "int")
        ks = [B.run("k = f(v)", {"f": so, "v": v})["k"] for v in verts]
        for i in range(3):
            for j in range(i + 1, 3):
                B.assume(B.not_(B.eq(ks[i], ks[j])), "sort keys distinct")
    for k, x in snapshot_assoc(B, verts, links, [uni]).items():
        B.observe(k, x)
    out = B.run(PROG, {"uni": uni, "rf": rf, "so": so})
    B.observe("got", out["got"])
    B.observe("raised", out["raised"])
    if out["want"] is None:
        B.reach("empty")
    else:
        if out["has_isolated"]:
            B.reach("isolated vertex line")
        if out["has_nb"]:
            B.reach("line with neighbours")
    B.prove("basic_render does not raise", out["raised"] is None)
    B.prove("text == one 'label -> n1, n2' line per member, in order; arrow kept for isolated vertices; None when empty",
            out["ok"])
