"""
C11  Adjacency builders build exactly the described graph; bad input rejected whole.
"""
from harness.common import make_vertices, make_links, inv01, inv02

ID = "C11"

MANIFEST = {
    "level": "Bounded model checking by symbolic execution of the real load_adj_dict, load_adj_matrix, link_from_to and "
             "Universe: the input vertices carry a symbolic prior link and prior universe membership; dictionary keys and "
             "value lists are symbolic references (equal keys merge, self and repeated entries arise by aliasing); "
             "matrix shape (row count, every row length, side-array length) and every cell (an unbounded integer, so "
             "every truthy/falsy value) are SMT variables. The resulting heap must equal the reference: members in "
             "first-mention / side-array order, one new link of exactly the requested type per listed pair / truthy "
             "cell, oriented key->value / row->column, appended in input order after the prior links; prior universes "
             "kept; neighbors() and find_links() read the adjacency back (dictionary values given as lists or as one-shot iterators); a non-square matrix or wrong side array raises ValueError "
             "with the whole heap unchanged.",
    "note": "Bounds: 3 vertices, dict of <= 2 (quick) / 3 entries with <= 2 values each, matrix up to 3x3 (row lengths "
            "0..3), one prior link and one prior universe. Trusted: pysym (validated per path on CPython), z3, the "
            "reference (40 lines).",
    "design_ref": "DESIGN.md 5 (C11)",
}

BOUNDS = {"quick": {"vertices": 3, "dict_entries": 2, "values_per_entry": 2, "matrix": "<=3x3 (ragged rows allowed)"},
          "thorough": {"vertices": 3, "dict_entries": 3, "values_per_entry": 2, "matrix": "<=3x3"}}
TIME_BUDGET = {"quick": 400, "thorough": 1200}
STUBS = ["uuid.uuid4 -> fresh distinct integer"]
ASSUMPTIONS = ["cells are integers (truthiness = non-zero) or, in one 2x2 configuration, any of 0, 1, None, '', 'x'; side-array entries are vertices",
               "pool bound: 3 vertices, 1 prior link, 1 prior universe"]
EXPLANATION = "builders vs reference on symbolic inputs over a symbolic prior graph; rejection leaves the heap untouched"

EDGE = {"DE": "DirectedEdge", "UE": "UnDirectedEdge", "TE": "OtherTE"}


def configs(tier):
    out = []
    for lt in ("DE", "UE", "TE"):
        for n in ((1, 2) if tier == "quick" else (0, 1, 2, 3)):
            if tier == "quick" and lt == "TE" and n == 2:
                continue
            out.append({"builder": "dict", "entries": n, "lt": lt, "prior": (n < 3)})
    # read-back through neighbors(): no prior structure, so the new links are all there is
    for lt in ("DE", "UE"):
        out.append({"builder": "dict", "entries": 2, "lt": lt, "prior": False, "readback": True})
        if tier != "quick":
            out.append({"builder": "dict", "entries": 3, "lt": lt, "prior": False})
    for lt in (("DE",) if tier == "quick" else ("DE", "UE")):
        for n in (0, 1, 2) if tier == "quick" else (0, 1, 2, 3):
            out.append({"builder": "matrix", "n": n, "lt": lt, "prior": n < 3})
    # cells that are not numbers: "truthy cell" means truthy (None, "" and () are falsy although they are not == 0)
    out.append({"builder": "matrix", "n": 2, "lt": "DE", "prior": False, "cells": "mixed"})
    out.append({"builder": "matrix_reject", "lt": "DE", "prior": True})
    return out


def required_markers(tier):
    return ["dict:built", "matrix:built", "matrix:rejected"]


PRE = '''
from edgegraph.builder.adjlist import load_adj_dict
from edgegraph.builder.adjmatrix import load_adj_matrix
from edgegraph.traversal.helpers import neighbors, find_links
from refmodel import ref_adj_pairs_dict, ref_adj_pairs_matrix, built_ok, incident_pairs
pre_links = [list(x._links) for x in pool]
pre_unis = [list(x._universes) for x in pool]
pre_ends = [list(l._vertices) for l in plinks]
pre_members = list(P._vertices)
raised = None
uni = None
'''

PROG_DICT = PRE + '''
adj = {}
given = {}
for k, vs in entries:
    adj[k] = vs
    # the values only have to be iterable: a one-shot iterator is as good as a list
    given[k] = iter(vs) if oneshot else vs
try:
    uni = load_adj_dict(given, linktype)
except Exception as exc:
    raised = type(exc).__name__
ok = False
readback = True
readback_fl = True
if uni is not None:
    members, pairs = ref_adj_pairs_dict(adj)
    ok = built_ok(uni, pool, pre_links, pre_unis, members, pairs, linktype)
    if check_readback:
        for x in pool:
            want = []
            for p in incident_pairs(pairs, x):
                if p[0] is x:
                    want.append(p[1])
                elif undirected:
                    want.append(p[0])
            readback = readback and (neighbors(x, 0, 1) == want)
            for y in (pool if check_fl else []):
                n = 0
                for p in pairs:
                    if (p[0] is x and p[1] is y) or (undirected and p[0] is y and p[1] is x and not (x is y)):
                        n = n + 1
                readback_fl = readback_fl and (len(find_links(x, y, True, 1)) == n)
frame = (P._vertices == pre_members) and ([list(l._vertices) for l in plinks] == pre_ends)
'''

PROG_MATRIX = PRE + '''
try:
    uni = load_adj_matrix(matrix, vertices, linktype)
except Exception as exc:
    raised = type(exc).__name__
square = (len(vertices) == len(matrix))
for row in matrix:
    square = square and (len(row) == len(matrix))
ok = False
unchanged = True
if square:
    if uni is not None:
        members, pairs = ref_adj_pairs_matrix(matrix, vertices)
        ok = built_ok(uni, pool, pre_links, pre_unis, members, pairs, linktype)
else:
    ok = (raised == "ValueError") and (uni is None)
    unchanged = ([list(x._links) for x in pool] == pre_links) and ([list(x._universes) for x in pool] == pre_unis)
frame = (P._vertices == pre_members) and ([list(l._vertices) for l in plinks] == pre_ends)
'''


def scenario(B, p):
    verts = make_vertices(B, 3)
    plinks = make_links(B, ["DE"])
    P = B.new("P", "Universe")
    if p["prior"]:
        l = plinks[0]
        B.set_field(l, "_vertices", B.mklist([B.ref("e0.v1", verts), B.ref("e0.v2", verts)]))
        for v in verts:
            B.set_field(v, "_links", B.reflist(B.label_of(v) + "._links", plinks, 1, 8))
        B.assume(inv01(B, verts, plinks), "Inv01(pre)")
        B.set_field(P, "_vertices", B.reflist("P.members", verts, 3, 3))
        for v in verts:
            B.set_field(v, "_universes", B.reflist(B.label_of(v) + "._universes", [P], 1, 2))
        B.assume(inv02(B, verts, [P]), "Inv02(pre)")
    else:
        B.set_field(plinks[0], "_vertices", B.mklist([]))
    env = {"pool": B.mklist(verts), "plinks": B.mklist(plinks), "P": P, "linktype": B.cls(EDGE[p["lt"]])}
    if p["builder"] == "dict":
        entries = []
        for i in range(p["entries"]):
            entries.append(B.mktuple([B.ref(f"key{i}", verts), B.reflist(f"vals{i}", verts, 2, 2)]))
        env["entries"] = B.mklist(entries)
        env["check_readback"] = not p["prior"]
        # the dedicated read-back configurations also read back through find_links and take one-shot iterators
        env["check_fl"] = bool(p.get("readback"))
        env["oneshot"] = B.bool("oneshot_values") if p.get("readback") else False
        env["undirected"] = p["lt"] != "DE"
        out = B.run(PROG_DICT, env)
        B.observe("raised", out["raised"])
        for v in verts:
            B.observe(B.label_of(v) + ".nlinks", B.run("n = len(x._links)", {"x": v})["n"])
        B.reach("dict:built")
        B.prove("load_adj_dict does not raise", out["raised"] is None)
        B.prove("members, new links (type, orientation, order) and prior structure exactly as described", out["ok"])
        B.prove("neighbors() reads the input adjacency back", out["readback"])
        B.prove("find_links() reads the input adjacency back", out["readback_fl"])
        B.prove("prior universe and prior links untouched", out["frame"])
        return
    if p["builder"] == "matrix":
        n = p["n"]
        if p.get("cells") == "mixed":
            menu = [0, 1, None, "", "x"]
            rows = [B.mklist([menu[B.choice(f"cell{i}_{j}", len(menu))] for j in range(n)]) for i in range(n)]
        else:
            rows = [B.intlist(f"row{i}", n, cap=n) for i in range(n)]
            for r in rows:
                B.assume(B.eq(B.len_(r), n), "square")
        env["matrix"] = B.mklist(rows)
        env["vertices"] = B.mklist([B.ref(f"side{i}", verts) for i in range(n)])
    else:
        nrows = B.choice("nrows", 3)
        rows = [B.intlist(f"row{i}", 3, lo=0, hi=1) for i in range(nrows)]
        env["matrix"] = B.mklist(rows)
        env["vertices"] = B.reflist("side", verts, 3, 3)
    out = B.run(PROG_MATRIX, env)
    B.observe("raised", out["raised"])
    for v in verts:
        B.observe(B.label_of(v) + ".nlinks", B.run("n = len(x._links)", {"x": v})["n"])
    if B.truth(out["square"]):
        B.reach("matrix:built")
        B.prove("load_adj_matrix does not raise on a square matrix with a matching side array", out["raised"] is None)
    else:
        B.reach("matrix:rejected")
    B.prove("square input: graph exactly as described; otherwise ValueError", out["ok"])
    B.prove("rejected input leaves every vertex untouched", out["unchanged"])
    B.prove("prior universe and prior links untouched", out["frame"])
