"""
C07  Traversal order is the canonical BFS / DFS order induced by link order.
Same symbolic state space as C06 (checks/c06.py); the obligations compare the
real sequences with three reference traversals written from the statement
(refmodel.ref_bft / ref_dft_recursive / ref_dft_iterative) and require the
sequences to be repeatable, also with the neighbour cache switched on.
"""
from checks import c06

ID = "C07"

MANIFEST = {
    "level": "Bounded model checking by symbolic execution of the real bft, dft_recursive, dft_iterative over a fully "
             "symbolic small multigraph (link ends, per-vertex link order, start, direction, unknown handling, universe, "
             "ff_via): each output sequence must equal, element by element, the reference FIFO mark-on-enqueue BFS, "
             "recursive pre-order DFS and explicit-stack mark-on-pop DFS over the reference neighbour rule; repeated "
             "calls (the second and third with the neighbour cache enabled) must return the same sequence.",
    "note": "Bounds as C06 (3 vertices, 2 links fully symbolic; 3 links with interchangeable links ordered). Trusted: "
            "pysym (validated per path on CPython), z3, the three reference traversals (15 lines each).",
    "design_ref": "DESIGN.md 5 (C07)",
}

BOUNDS = c06.BOUNDS
TIME_BUDGET = c06.TIME_BUDGET
STUBS = c06.STUBS
ASSUMPTIONS = c06.ASSUMPTIONS
EXPLANATION = "real traversal sequences vs canonical reference orders on a fully symbolic small multigraph"


def configs(tier):
    return [c for c in c06.configs(tier, prop="C07") if c["filter"] != "result"]


def required_markers(tier):
    return ["normal"]


scenario = c06.scenario
