"""
C06  Every traversal visits exactly the reachable in-universe vertices, once each.
(The scenario is shared with C07, which asserts the canonical orders.)
"""
from harness.common import make_vertices, make_links, symbolic_assoc_state, inv01, snapshot_assoc

ID = "C06"

MANIFEST = {
    "level": "Bounded model checking by symbolic execution of the real bft/ibft, dft_recursive/idft_recursive, "
             "dft_iterative/idft_iterative (generators included) and helpers.neighbors: link ends, per-vertex link "
             "order, universe membership, start vertex, direction, unknown_handling, ff_via and ff_result "
             "(uninterpreted functions or None) are SMT variables. Obligations: output starts with start, has no "
             "repetition, equals the reference reachability fix-point as a set; the three traversals agree; list form "
             "== generator form; ff_result only filters the listing; every form returns wherever reachability is "
             "defined (elsewhere - empty universe, start outside it, unknown-type link under LNK_UNKNOWN_ERROR - only "
             "'nothing outside the universe is listed' is required); termination (a call-depth bound hit is replayed "
             "natively: RecursionError is a violation).",
    "note": "Bounds: 3 vertices (one of them optionally a falsy Vertex subclass), 2-3 two-ended links per class "
            "multiset, universe None or any sub-universe of the pool.  Trusted: pysym (validated per path on CPython), "
            "z3, the reference fix-point.",
    "design_ref": "DESIGN.md 5 (C06)",
}

BOUNDS = {"quick": {"vertices": 3, "links": "2-3"}, "thorough": {"vertices": "3-4", "links": "3-4"}}
TIME_BUDGET = {"quick": 400, "thorough": 1200}
STUBS = ["ff_via -> uninterpreted ff(link, vertex): Bool", "ff_result -> uninterpreted fr(vertex): Bool",
         "collections.deque -> list-backed model"]
ASSUMPTIONS = [
    "direction and unknown_handling range over the documented constants",
    "links are two-ended with two vertex ends; filters are pure",
    "graphs beyond the pool bound are outside the claim",
]
EXPLANATION = "real traversals vs reference reachability on a fully symbolic small multigraph"


def configs(tier, prop="C06"):
    out = []

    def cfg(cs, nv, uni, filt, **kw):
        d = {"classes": cs, "nv": nv, "uni": uni, "filter": filt, "prop": prop, "falsy": False}
        d.update(kw)
        out.append(d)
    # A: two links, everything symbolic (ends, order, start, direction, unknown handling, universe, filters)
    two = [["DE", "UE"], ["DE", "TE"]] if tier == "quick" else [["DE", "UE"], ["DE", "TE"], ["UE", "SD"], ["TE", "SU"]]
    for cs in two:
        for uni in ("none", "sym"):
            for filt in ("none", "via", "result"):
                cfg(cs, 3, uni, filt, falsy=(cs == ["DE", "UE"]))
    # distinct vertices that carry one and the same uid (a graph and its copy joined together)
    cfg(["DE", "UE"], 3, "none", "none", same_uid=True)
    # A': a half-assigned edge (v2 is None) next to a universe: None is never a member, so every traversal skips it
    cfg(["DE", "UE"], 3, "sym", "none", none_end=True, dir=1, unk=2)
    # B: three links; interchangeable links ordered (symmetry breaking), start fixed by symmetry
    cfg(["DE", "DE", "DE"], 3, "none", "none", symbreak=True, dir=0, unk=2)
    cfg(["DE", "DE", "UE"], 3, "none", "none", symbreak=True, dir=0, unk=2)
    cfg(["DE", "DE", "DE"], 3, "none", "none", symbreak=True, dir=2, unk=2)
    if tier != "quick":
        cfg(["DE", "DE", "DE"], 3, "none", "none", symbreak=True)
        cfg(["DE", "DE", "DE"], 3, "sym", "none", symbreak=True, dir=0, unk=2)
        cfg(["DE", "DE", "DE"], 3, "none", "via", symbreak=True, dir=0, unk=2)
        cfg(["UE", "UE", "UE"], 3, "none", "none", symbreak=True, dir=0, unk=2)
        cfg(["DE", "DE", "DE"], 4, "none", "none", symbreak=True, dir=0, unk=2)
        cfg(["DE", "DE", "DE"], 4, "sym", "none", symbreak=True, dir=0, unk=2)
    return out


def required_markers(tier):
    return ["normal", "preflight:empty", "preflight:notmember", "unknown-link error"]


PROG = '''
from edgegraph.traversal import breadthfirst, depthfirst
from edgegraph.structure import Vertex
from refmodel import ref_reach, ref_bft, ref_dft_recursive, ref_dft_iterative, same_set, no_repeats, filter_list
from refmodel import hop_distances, bfs_layers_ok, preorder_ok

def attempt(fn, fr):
    try:
        r = fn(uni, start, direction_sensitive=d, unknown_handling=u, ff_via=ffv, ff_result=fr)
        return list(r), None
    except Exception as exc:
        return None, type(exc).__name__

pre = None
if (uni is not None) and len(uni._vertices) == 0:
    pre = "empty"
elif (uni is not None) and not (start in uni._vertices):
    pre = "notmember"

reach, rexc = None, None
if pre is None:
    reach, rexc = ref_reach(uni, start, d, u, ffv)

b0, b0x = attempt(breadthfirst.bft, None)
r0, r0x = attempt(depthfirst.dft_recursive, None)
i0, i0x = attempt(depthfirst.dft_iterative, None)
gb, gbx = attempt(breadthfirst.ibft, ffr)
gr, grx = attempt(depthfirst.idft_recursive, ffr)
gi, gix = attempt(depthfirst.idft_iterative, ffr)
b1, b1x = attempt(breadthfirst.bft, ffr)
r1, r1x = attempt(depthfirst.dft_recursive, ffr)
i1, i1x = attempt(depthfirst.dft_iterative, ffr)

# The statement fixes the outcome only where reachability is defined: start is a member (or no universe) and
# neighbors() does not raise for any reachable vertex - then every form must return.  What happens for an empty
# universe, a start outside the universe, or an unknown-type link under LNK_UNKNOWN_ERROR is not part of the
# statement (the code raises ValueError / NotImplementedError, or returns []): only consistency is required there.
if pre is None and rexc is None:
    exc_ok = (b0x is None) and (r0x is None) and (i0x is None) and (b1x is None) and (r1x is None) and (i1x is None)
else:
    exc_ok = True
    for t in (b0, r0, i0):
        if t is not None and uni is not None:
            for x in t:
                exc_ok = exc_ok and (x in uni._vertices)
gen_ok = (gbx == b1x) and (grx == r1x) and (gix == i1x) and (gb == b1) and (gr == r1) and (gi == i1)

set_ok = True
filt_ok = True
order_ok = True
derived_ok = True
if pre is None and rexc is None and b0 is not None and r0 is not None and i0 is not None:
    for t in (b0, r0, i0):
        set_ok = set_ok and (t[0] is start) and no_repeats(t) and same_set(t, reach)
    if ffr is not None and b1 is not None and r1 is not None and i1 is not None:
        filt_ok = (b1 == filter_list(b0, ffr)) and (r1 == filter_list(r0, ffr)) and (i1 == filter_list(i0, ffr))
    if prop == "C07":
        wb, _ = ref_bft(uni, start, d, u, ffv)
        wr, _ = ref_dft_recursive(uni, start, d, u, ffv)
        wi, _ = ref_dft_iterative(uni, start, d, u, ffv)
        order_ok = (b0 == wb) and (r0 == wr) and (i0 == wi)
        # stated directly, so that a slip in the reference traversals cannot hide: distances never decrease along
        # bft's listing; in dft_recursive a vertex is followed by its first not-yet-listed neighbour
        dist = hop_distances(uni, start, d, u, ffv)
        derived_ok = (dist is not None) and bfs_layers_ok(b0, dist) and preorder_ok(uni, r0, d, u, ffv)
        # determinism: repeating the calls (the second time with the neighbour cache on) gives the same sequences
        Vertex.NEIGHBOR_CACHING = True
        b2, _ = attempt(breadthfirst.bft, None)
        b3, _ = attempt(breadthfirst.bft, None)
        r2, _ = attempt(depthfirst.dft_recursive, None)
        i2, _ = attempt(depthfirst.dft_iterative, None)
        Vertex.NEIGHBOR_CACHING = False
        order_ok = order_ok and (b2 == b0) and (b3 == b0) and (r2 == r0) and (i2 == i0)
'''


def scenario(B, p):
    vcls = ["Vertex"] * p["nv"]
    if p.get("falsy"):
        vcls[1] = "FalsyVertex"
    verts = make_vertices(B, p["nv"], vcls, uid=7 if p.get("same_uid") else None)
    links = make_links(B, p["classes"])
    n = len(links)
    symbolic_assoc_state(B, verts, links, n, n, two_ended_wellformed=True)
    for li, l in enumerate(links):
        for ei, e in enumerate(B.items(B.get_field(l, "_vertices"))):
            if p.get("none_end") and li == 0 and ei == 1:
                continue        # the first link's v2 may be None (a half-assigned edge); only with a universe
            B.assume(B.not_(B.is_(e, None)), "ends are vertices")
    B.assume(inv01(B, verts, links), "Inv01(pre)")
    if p.get("symbreak"):
        # pool links of one class are interchangeable (each vertex's link order is
        # separately symbolic): order them by their (v1, v2) pair
        idx = {}
        for i, v in enumerate(verts):
            idx[i] = v

        def rank(e):
            r = 0
            for i, v in enumerate(verts):
                r = B.ite(B.is_(e, v), i, r)
            return r
        for i in range(len(links) - 1):
            if p["classes"][i] != p["classes"][i + 1]:
                continue
            a1, a2 = B.items(B.get_field(links[i], "_vertices"))
            b1, b2 = B.items(B.get_field(links[i + 1], "_vertices"))
            ka = B.add(B.add(rank(a1), rank(a1)), B.add(rank(a1), rank(a2)))      # 3*r1 + r2
            kb = B.add(B.add(rank(b1), rank(b1)), B.add(rank(b1), rank(b2)))
            B.assume(B.le(ka, kb), "symmetry breaking on interchangeable links")
    uni = None
    if p["uni"] == "sym":
        uni = B.new("U", "Universe")
        B.set_field(uni, "_vertices", B.reflist("U.members", verts, len(verts), len(verts)))
        B.assume(B.nodup(B.get_field(uni, "_vertices")), "members distinct")
        for v in verts:
            B.set_field(v, "_universes", B.reflist(f"{B.label_of(v)}._universes", [uni], 1, 1))
            B.assume(B.iff(B.contains(B.get_field(uni, "_vertices"), v), B.contains(B.get_field(v, "_universes"), uni)),
                     "Inv02(pre)")
    # by the symmetry of the symbolic ends, any vertex can be the start: take the first one
    # (with a falsy vertex in the pool the start is left symbolic)
    start = B.ref("start", verts) if p.get("falsy") else verts[0]
    d = B.int("direction", 0, 2) if p.get("dir") is None else p["dir"]
    u = B.int("unknown_handling", 0, 2) if p.get("unk") is None else p["unk"]
    ffv = B.uf("ffv", [links, verts], "bool") if p["filter"] == "via" else None
    ffr = B.uf("ffr", [verts], "bool") if p["filter"] == "result" else None
    for k, val in snapshot_assoc(B, verts, links, [uni] if uni is not None else []).items():
        B.observe(k, val)
    out = B.run(PROG, {"uni": uni, "start": start, "d": d, "u": u, "ffv": ffv, "ffr": ffr, "prop": p["prop"]})
    for k in ("b0", "r0", "i0", "b0x", "r0x", "i0x", "b1", "r1", "i1", "pre"):
        B.observe(k, out[k])
    if out["pre"] == "empty":
        B.reach("preflight:empty")
    elif out["pre"] == "notmember":
        B.reach("preflight:notmember")
    elif out["rexc"] is not None:
        B.reach("unknown-link error")
    else:
        B.reach("normal")
    if p["prop"] == "C06":
        B.prove("every form returns where reachability is defined; elsewhere nothing outside the universe is listed", out["exc_ok"])
        B.prove("generator form == list form", out["gen_ok"])
        B.prove("starts with start, no repetition, set == reachable in-universe vertices", out["set_ok"])
        B.prove("ff_result only filters the listing", out["filt_ok"])
    else:
        B.prove("every traversal returns where reachability is defined", out["exc_ok"])
        B.prove("canonical BFS / recursive pre-order / explicit-stack DFS order; repeatable (also with the cache on)",
                out["order_ok"])
        B.prove("hop distance never decreases along bft; dft_recursive continues with the first unlisted neighbour",
                out["derived_ok"])
